package checks

import (
	"fmt"
	"go/ast"
	"go/constant"
	"go/token"
	"go/types"
	"strings"

	"golang.org/x/tools/go/packages"

	"verif/internal/core"
	"verif/internal/vn"
)

// ---------------------------------------------------------------------------
// access extraction for the derivative storage of magic scalars

type idxClass struct {
	kind   string // param | loop | const | other
	k      int    // parameter index
	lo, hi string // normalised loop bounds (hi exclusive)
	s      string
}

type facc struct {
	field  string
	write  bool
	idx    []idxClass
	rhs    ast.Expr
	pos    token.Pos
	order  int // strongest enclosing guard "order >= k" (0 if none)
	stmt   ast.Stmt
	whole  bool // assignment to the whole field (a.Derivative = ...)
	cond   bool // nested in a conditional other than a recognised 'order >= k' if-branch
	inLoop []idxClass
}

type fnCtx struct {
	pkg    *packages.Package
	info   *types.Info
	fd     *ast.FuncDecl
	recv   types.Object
	params []types.Object
}

func newFnCtx(pkg *packages.Package, fd *ast.FuncDecl) *fnCtx {
	f := &fnCtx{pkg: pkg, info: pkg.TypesInfo, fd: fd}
	if fd.Recv != nil && len(fd.Recv.List[0].Names) > 0 {
		f.recv = f.info.Defs[fd.Recv.List[0].Names[0]]
	}
	if fd.Type.Params != nil {
		for _, p := range fd.Type.Params.List {
			for _, n := range p.Names {
				f.params = append(f.params, f.info.Defs[n])
			}
		}
	}
	return f
}

// norm renders an expression with receiver -> R and parameters -> P<k>.
func (f *fnCtx) norm(e ast.Expr) string {
	if e == nil {
		return ""
	}
	s := types.ExprString(e)
	var sb strings.Builder
	// token-wise replacement of identifiers
	repl := map[string]string{}
	ast.Inspect(e, func(n ast.Node) bool {
		if id, ok := n.(*ast.Ident); ok {
			o := f.info.Uses[id]
			if o == nil {
				return true
			}
			if o == f.recv {
				repl[id.Name] = "R"
			}
			for k, p := range f.params {
				if o == p {
					repl[id.Name] = fmt.Sprintf("P%d", k)
				}
			}
		}
		return true
	})
	i := 0
	for i < len(s) {
		ch := s[i]
		if ch == '_' || (ch >= 'a' && ch <= 'z') || (ch >= 'A' && ch <= 'Z') {
			j := i
			for j < len(s) && (s[j] == '_' || (s[j] >= 'a' && s[j] <= 'z') || (s[j] >= 'A' && s[j] <= 'Z') || (s[j] >= '0' && s[j] <= '9')) {
				j++
			}
			w := s[i:j]
			prevDot := i > 0 && s[i-1] == '.'
			if r, ok := repl[w]; ok && !prevDot {
				sb.WriteString(r)
			} else {
				sb.WriteString(w)
			}
			i = j
			continue
		}
		sb.WriteByte(ch)
		i++
	}
	return sb.String()
}

// orderGuard: does cond imply order >= k? returns k (0 if not an order guard).
func (f *fnCtx) orderGuard(cond ast.Expr) int {
	be, ok := ast.Unparen(cond).(*ast.BinaryExpr)
	if !ok {
		return 0
	}
	if be.Op == token.LAND {
		a, b := f.orderGuard(be.X), f.orderGuard(be.Y)
		if a > b {
			return a
		}
		return b
	}
	tv, ok := f.info.Types[be.Y]
	if !ok || tv.Value == nil || tv.Value.Kind() != constant.Int {
		return 0
	}
	c, _ := constant.Int64Val(tv.Value)
	if !f.isOrderExpr(be.X) {
		return 0
	}
	switch be.Op {
	case token.GEQ:
		return int(c)
	case token.GTR:
		return int(c) + 1
	}
	return 0
}

func (f *fnCtx) isOrderExpr(e ast.Expr) bool {
	switch x := ast.Unparen(e).(type) {
	case *ast.SelectorExpr:
		return x.Sel.Name == "Order"
	case *ast.CallExpr:
		if s, ok := x.Fun.(*ast.SelectorExpr); ok && s.Sel.Name == "GetOrder" {
			return true
		}
	case *ast.Ident:
		if v, ok := f.info.Uses[x].(*types.Var); ok && strings.EqualFold(v.Name(), "order") {
			return true
		}
	}
	return false
}

func (f *fnCtx) accesses() []facc {
	var res []facc
	type loopInfo struct {
		obj    types.Object
		lo, hi string
	}
	var walk func(n ast.Node, order int, loops []loopInfo)
	condDepth := 0
	classify := func(e ast.Expr, loops []loopInfo) idxClass {
		if tv, ok := f.info.Types[e]; ok && tv.Value != nil {
			return idxClass{kind: "const", s: tv.Value.String()}
		}
		if id, ok := ast.Unparen(e).(*ast.Ident); ok {
			o := f.info.Uses[id]
			for k, p := range f.params {
				if o == p {
					return idxClass{kind: "param", k: k, s: fmt.Sprintf("P%d", k)}
				}
			}
			for _, l := range loops {
				if l.obj == o {
					return idxClass{kind: "loop", lo: l.lo, hi: l.hi, s: id.Name}
				}
			}
		}
		return idxClass{kind: "other", s: f.norm(e)}
	}
	// collects index chain: R.Field[i][j]
	chain := func(e ast.Expr) (field string, idx []ast.Expr, ok bool) {
		for {
			switch x := ast.Unparen(e).(type) {
			case *ast.IndexExpr:
				idx = append([]ast.Expr{x.Index}, idx...)
				e = x.X
				continue
			case *ast.SelectorExpr:
				if id, ok2 := ast.Unparen(x.X).(*ast.Ident); ok2 && f.info.Uses[id] == f.recv {
					if x.Sel.Name == "Derivative" || x.Sel.Name == "Hessian" {
						return x.Sel.Name, idx, true
					}
				}
			}
			return "", nil, false
		}
	}
	var curStmt ast.Stmt
	record := func(e ast.Expr, write bool, rhs ast.Expr, order int, loops []loopInfo) bool {
		field, idx, ok := chain(e)
		if !ok {
			return false
		}
		a := facc{field: field, write: write, rhs: rhs, pos: e.Pos(), order: order, stmt: curStmt, whole: len(idx) == 0, cond: condDepth > 0}
		for _, ie := range idx {
			a.idx = append(a.idx, classify(ie, loops))
		}
		for _, l := range loops {
			a.inLoop = append(a.inLoop, idxClass{kind: "loop", lo: l.lo, hi: l.hi})
		}
		res = append(res, a)
		return true
	}
	walk = func(n ast.Node, order int, loops []loopInfo) {
		switch x := n.(type) {
		case nil:
			return
		case *ast.BlockStmt:
			for _, s := range x.List {
				walk(s, order, loops)
			}
		case *ast.IfStmt:
			if x.Init != nil {
				walk(x.Init, order, loops)
			}
			walkExpr(f, x.Cond, func(e ast.Expr) bool { return record(e, false, nil, order, loops) })
			g := f.orderGuard(x.Cond)
			o2 := order
			if g > o2 {
				o2 = g
			}
			if g == 0 {
				condDepth++
			}
			walk(x.Body, o2, loops)
			if g == 0 {
				condDepth--
			}
			if x.Else != nil {
				condDepth++
				walk(x.Else, order, loops)
				condDepth--
			}
		case *ast.ForStmt:
			li := loopInfo{}
			if as, ok := x.Init.(*ast.AssignStmt); ok && len(as.Lhs) == 1 {
				if id, ok := as.Lhs[0].(*ast.Ident); ok {
					li.obj = f.info.Defs[id]
					li.lo = f.norm(as.Rhs[0])
					// lo may be an outer loop variable
					if rid, ok := as.Rhs[0].(*ast.Ident); ok {
						for _, l := range loops {
							if l.obj == f.info.Uses[rid] {
								li.lo = "loop:" + rid.Name
							}
						}
					}
				}
			}
			if be, ok := x.Cond.(*ast.BinaryExpr); ok && be.Op == token.LSS {
				li.hi = f.norm(be.Y)
			}
			walk(x.Body, order, append(append([]loopInfo{}, loops...), li))
		case *ast.RangeStmt:
			walk(x.Body, order, loops)
		case *ast.AssignStmt:
			curStmt = x
			for i, l := range x.Lhs {
				var r ast.Expr
				if len(x.Rhs) == len(x.Lhs) {
					r = x.Rhs[i]
				}
				if !record(l, true, r, order, loops) {
					walkExpr(f, l, func(e ast.Expr) bool { return record(e, false, nil, order, loops) })
				}
			}
			for _, r := range x.Rhs {
				walkExpr(f, r, func(e ast.Expr) bool { return record(e, false, nil, order, loops) })
			}
		case *ast.ReturnStmt:
			curStmt = x
			for _, r := range x.Results {
				walkExpr(f, r, func(e ast.Expr) bool { return record(e, false, nil, order, loops) })
			}
		case *ast.ExprStmt:
			curStmt = x
			walkExpr(f, x.X, func(e ast.Expr) bool { return record(e, false, nil, order, loops) })
		case *ast.SwitchStmt:
			condDepth++
			walk(x.Body, order, loops)
			condDepth--
		case *ast.CaseClause:
			for _, s := range x.Body {
				walk(s, order, loops)
			}
		}
	}
	walk(f.fd.Body, 0, nil)
	return res
}

// walkExpr visits index/selector chains top-down; visit returns true when it consumed the chain.
func walkExpr(f *fnCtx, e ast.Expr, visit func(ast.Expr) bool) {
	ast.Inspect(e, func(n ast.Node) bool {
		switch x := n.(type) {
		case *ast.IndexExpr:
			if visit(x) {
				// still visit the index expressions
				for {
					ix, ok := ast.Unparen(ast.Expr(x)).(*ast.IndexExpr)
					if !ok {
						break
					}
					walkExpr(f, ix.Index, visit)
					nx, ok := ast.Unparen(ix.X).(*ast.IndexExpr)
					if !ok {
						break
					}
					x = nx
				}
				return false
			}
		case *ast.SelectorExpr:
			if visit(x) {
				return false
			}
		}
		return true
	})
}

// callsOn lists calls of method names on the receiver, in source order.
func (f *fnCtx) callsOnRecv() []*ast.CallExpr {
	var r []*ast.CallExpr
	ast.Inspect(f.fd.Body, func(n ast.Node) bool {
		if ce, ok := n.(*ast.CallExpr); ok {
			if s, ok := ast.Unparen(ce.Fun).(*ast.SelectorExpr); ok {
				if id, ok := ast.Unparen(s.X).(*ast.Ident); ok && f.info.Uses[id] == f.recv {
					r = append(r, ce)
				}
			}
		}
		return true
	})
	return r
}

func calleeName(ce *ast.CallExpr) string {
	if s, ok := ast.Unparen(ce.Fun).(*ast.SelectorExpr); ok {
		return s.Sel.Name
	}
	if id, ok := ast.Unparen(ce.Fun).(*ast.Ident); ok {
		return id.Name
	}
	return ""
}

// fieldAssigns lists assignments to scalar fields (Value, Order, N) of the receiver.
func (f *fnCtx) fieldAssigns() map[string][]*ast.AssignStmt {
	r := map[string][]*ast.AssignStmt{}
	ast.Inspect(f.fd.Body, func(n ast.Node) bool {
		as, ok := n.(*ast.AssignStmt)
		if !ok {
			return true
		}
		for _, l := range as.Lhs {
			if s, ok := ast.Unparen(l).(*ast.SelectorExpr); ok {
				if id, ok := ast.Unparen(s.X).(*ast.Ident); ok && f.info.Uses[id] == f.recv {
					r[s.Sel.Name] = append(r[s.Sel.Name], as)
				}
			}
		}
		return true
	})
	return r
}

// ---------------------------------------------------------------------------
// R4

func isZeroConst(info *types.Info, e ast.Expr) bool {
	if tv, ok := info.Types[e]; ok && tv.Value != nil {
		if tv.Value.Kind() == constant.Int || tv.Value.Kind() == constant.Float {
			return constant.Sign(tv.Value) == 0
		}
	}
	return false
}

func isOneConst(info *types.Info, e ast.Expr) bool {
	if tv, ok := info.Types[e]; ok && tv.Value != nil {
		return constant.Compare(tv.Value, token.EQL, constant.MakeInt64(1))
	}
	return false
}

func checkMagicState(c *core.Ctx, pkg *packages.Package, T string) {
	info := pkg.TypesInfo
	R := "C01.R4"
	get := func(name string) (*fnCtx, string) {
		fd := core.FindMethod(pkg, T, name)
		cons := "(*" + T + ")." + name
		if fd == nil {
			c.Unknown(R, cons, "present", token.NoPos, "method not found")
			return nil, cons
		}
		return newFnCtx(pkg, fd), cons
	}
	nBound := func(s string) bool { // loop upper bound equals the number of variables
		switch s {
		case "R.N", "R.GetN()", "P0.GetN()", "P0.N", "P0":
			return true
		}
		return false
	}
	// getters
	if f, cons := get("GetDerivative"); f != nil {
		var reads []facc
		for _, a := range f.accesses() {
			if !a.write {
				reads = append(reads, a)
			}
		}
		ok := len(reads) == 1 && reads[0].field == "Derivative" && len(reads[0].idx) == 1 && reads[0].idx[0].kind == "param" && reads[0].idx[0].k == 0 && reads[0].order >= 1
		c.Check(ok, R, cons, "reads Derivative[i] under order>=1", f.fd.Pos(), "GetDerivative(i) must read exactly Derivative[i] under the order>=1 guard")
		c.Check(otherReturnsZero(f), R, cons, "returns 0 otherwise", f.fd.Pos(), "every other return must be the constant 0")
	}
	if f, cons := get("GetHessian"); f != nil {
		var reads []facc
		for _, a := range f.accesses() {
			if !a.write {
				reads = append(reads, a)
			}
		}
		ok := len(reads) == 1 && reads[0].field == "Hessian" && len(reads[0].idx) == 2 &&
			reads[0].idx[0].kind == "param" && reads[0].idx[0].k == 0 && reads[0].idx[1].kind == "param" && reads[0].idx[1].k == 1 && reads[0].order >= 2
		c.Check(ok, R, cons, "reads Hessian[i][j] under order>=2", f.fd.Pos(), "GetHessian(i,j) must read exactly Hessian[i][j] under the order>=2 guard")
		c.Check(otherReturnsZero(f), R, cons, "returns 0 otherwise", f.fd.Pos(), "every other return must be the constant 0")
	}
	// setters
	if f, cons := get("SetDerivative"); f != nil {
		acc := f.accesses()
		ok := len(acc) == 1 && acc[0].write && acc[0].field == "Derivative" && len(acc[0].idx) == 1 && acc[0].idx[0].kind == "param" && acc[0].idx[0].k == 0 && mentionsParam(f, acc[0].rhs, 1)
		c.Check(ok, R, cons, "writes Derivative[i] = v", f.fd.Pos(), "SetDerivative(i,v) must store v at Derivative[i]")
	}
	if f, cons := get("SetHessian"); f != nil {
		acc := f.accesses()
		ok := len(acc) == 1 && acc[0].write && acc[0].field == "Hessian" && len(acc[0].idx) == 2 &&
			acc[0].idx[0].kind == "param" && acc[0].idx[0].k == 0 && acc[0].idx[1].kind == "param" && acc[0].idx[1].k == 1 && mentionsParam(f, acc[0].rhs, 2)
		c.Check(ok, R, cons, "writes Hessian[i][j] = v", f.fd.Pos(), "SetHessian(i,j,v) must store v at Hessian[i][j]")
	}
	// ResetDerivatives
	if f, cons := get("ResetDerivatives"); f != nil {
		okD, okH := false, false
		bad := ""
		for _, a := range f.accesses() {
			if !a.write {
				continue
			}
			if !isZeroConst(info, a.rhs) {
				bad = "non-zero store"
			}
			full := func(ix idxClass) bool { return ix.kind == "loop" && ix.lo == "0" && nBound(ix.hi) }
			switch {
			case a.field == "Derivative" && len(a.idx) == 1 && full(a.idx[0]) && a.order <= 1 && !a.cond:
				okD = true
			case a.field == "Hessian" && len(a.idx) == 2 && full(a.idx[0]) && full(a.idx[1]) && a.idx[0].s != a.idx[1].s && a.order <= 2 && !a.cond:
				okH = true
			default:
				bad = "store outside the full 0..N-1 ranges"
			}
		}
		c.Check(okD && okH && bad == "", R, cons, "zeroes every gradient and Hessian cell", f.fd.Pos(), "ResetDerivatives must zero Derivative[0..N) whenever order>=1 and Hessian[0..N)[0..N) whenever order>=2 (no other condition): "+bad)
	}
	// Reset
	if f, cons := get("Reset"); f != nil {
		fa := f.fieldAssigns()
		okV := len(fa["Value"]) == 1 && isZeroConst(info, fa["Value"][0].Rhs[0])
		okR := false
		for _, ce := range f.callsOnRecv() {
			if calleeName(ce) == "ResetDerivatives" {
				okR = true
			}
		}
		c.Check(okV && okR, R, cons, "value 0 and derivatives cleared", f.fd.Pos(), "Reset must set Value = 0 and call ResetDerivatives")
	}
	// SetX family
	for _, suf := range []string{"Int8", "Int16", "Int32", "Int64", "Int", "Float32", "Float64"} {
		if f, cons := get("Set" + suf); f != nil {
			calls := f.callsOnRecv()
			okSet, okReset := false, false
			for _, ce := range calls {
				switch calleeName(ce) {
				case "set" + suf:
					okSet = len(ce.Args) == 1 && mentionsParam(f, ce.Args[0], 0)
				case "ResetDerivatives":
					okReset = true
				}
			}
			if !okSet {
				// direct store accepted
				fa := f.fieldAssigns()
				okSet = len(fa["Value"]) == 1 && mentionsParam(f, fa["Value"][0].Rhs[0], 0)
			}
			c.Check(okSet && okReset, R, cons, "stores the value and clears derivatives", f.fd.Pos(), "Set"+suf+" must store v and call ResetDerivatives (a constant carries no derivative)")
		}
		if f, cons := get("set" + suf); f != nil {
			fa := f.fieldAssigns()
			ok := len(fa["Value"]) == 1 && mentionsParam(f, fa["Value"][0].Rhs[0], 0) && len(fa) == 1 && len(f.accesses()) == 0
			c.Check(ok, R, cons, "stores the value only", f.fd.Pos(), "set"+suf+" must assign Value = v and touch nothing else (the chain rule relies on it keeping the derivatives)")
		}
	}
	// Alloc
	if f, cons := get("Alloc"); f != nil {
		okD, okH, okRows := false, false, false
		for _, a := range f.accesses() {
			if !a.write {
				continue
			}
			mk, ok := ast.Unparen(a.rhs).(*ast.CallExpr)
			isMake := ok && calleeName(mk) == "make" && len(mk.Args) == 2 && mentionsParam(f, mk.Args[1], 0)
			switch {
			case a.field == "Derivative" && a.whole && isMake && a.order >= 1:
				okD = true
			case a.field == "Hessian" && a.whole && isMake && a.order >= 2:
				okH = true
			case a.field == "Hessian" && len(a.idx) == 1 && isMake && a.order >= 2 && a.idx[0].kind == "loop" && a.idx[0].lo == "0" && a.idx[0].hi == "P0":
				okRows = true
			}
		}
		fa := f.fieldAssigns()
		okN := len(fa["N"]) >= 1 && mentionsParam(f, fa["N"][0].Rhs[0], 0)
		okO := len(fa["Order"]) >= 1 && mentionsParam(f, fa["Order"][0].Rhs[0], 1)
		c.Check(okD && okH && okRows && okN && okO, R, cons, "allocates n gradient cells (order>=1) and n x n Hessian cells (order>=2)", f.fd.Pos(),
			fmt.Sprintf("Alloc(n,order): N=n %v, Order=order %v, Derivative=make(n) under order>=1 %v, Hessian=make(n) %v with n rows of n %v", okN, okO, okD, okH, okRows))
	}
	// AllocForOne / AllocForTwo
	if f, cons := get("AllocForOne"); f != nil {
		ok := false
		for _, ce := range f.callsOnRecv() {
			if calleeName(ce) == "Alloc" && len(ce.Args) == 2 && f.norm(ce.Args[0]) == "P0.GetN()" && f.norm(ce.Args[1]) == "P0.GetOrder()" {
				ok = true
			}
		}
		c.Check(ok, R, cons, "Alloc(a.GetN(), a.GetOrder())", f.fd.Pos(), "result storage must be sized from the operand")
	}
	if f, cons := get("AllocForTwo"); f != nil {
		ok := false
		for _, ce := range f.callsOnRecv() {
			if calleeName(ce) == "Alloc" && len(ce.Args) == 2 {
				a0, a1 := f.norm(ce.Args[0]), f.norm(ce.Args[1])
				okN := a0 == "iMax(P0.GetN(), P1.GetN())" || a0 == "iMax(P1.GetN(), P0.GetN())"
				okO := a1 == "iMax(P0.GetOrder(), P1.GetOrder())" || a1 == "iMax(P1.GetOrder(), P0.GetOrder())"
				ok = okN && okO
			}
		}
		c.Check(ok, R, cons, "Alloc(max N, max order)", f.fd.Pos(), "result storage must be sized from the maximum N and order of both operands")
	}
	// Set / SET
	for _, name := range []string{"Set", "SET"} {
		f, cons := get(name)
		if f == nil {
			continue
		}
		fa := f.fieldAssigns()
		okV := len(fa["Value"]) == 1 && strings.HasPrefix(f.norm(fa["Value"][0].Rhs[0]), "P0.Get")
		c.Check(okV, R, cons, "copies the value", f.fd.Pos(), "Value must be read from the source")
		// Alloc(b.GetN(), b.GetOrder()) and no earlier write of Order/N (which would defeat Alloc's change test)
		var alloc *ast.CallExpr
		for _, ce := range f.callsOnRecv() {
			if calleeName(ce) == "Alloc" && len(ce.Args) == 2 && f.norm(ce.Args[0]) == "P0.GetN()" && f.norm(ce.Args[1]) == "P0.GetOrder()" {
				alloc = ce
			}
		}
		c.Check(alloc != nil, R, cons, "storage sized from the source", f.fd.Pos(), "Set must call Alloc(b.GetN(), b.GetOrder())")
		if alloc != nil {
			early := ""
			for _, fld := range []string{"Order", "N"} {
				for _, as := range fa[fld] {
					if as.Pos() < alloc.Pos() {
						early = fld
					}
				}
			}
			c.Check(early == "", R, cons, "Alloc sees the receiver's old shape", alloc.Pos(),
				"field "+early+" is overwritten before Alloc(n, order) compares it with the new shape: when only the order changes (same N) nothing is allocated and the copy loops index missing storage")
		}
		okD, okH := false, false
		bad := ""
		for _, a := range f.accesses() {
			if !a.write {
				continue
			}
			full := func(ix idxClass) bool { return ix.kind == "loop" && ix.lo == "0" && nBound(ix.hi) }
			switch {
			case a.field == "Derivative" && len(a.idx) == 1 && full(a.idx[0]) && a.order == 1 && !a.cond:
				okD = strings.Contains(f.norm(a.rhs), "P0.GetDerivative("+a.idx[0].s+")")
			case a.field == "Hessian" && len(a.idx) == 2 && full(a.idx[0]) && full(a.idx[1]) && a.order == 2 && !a.cond:
				okH = strings.Contains(f.norm(a.rhs), "P0.GetHessian("+a.idx[0].s+", "+a.idx[1].s+")")
			default:
				bad = "store outside the full ranges"
			}
		}
		c.Check(okD && okH && bad == "", R, cons, "copies every gradient and Hessian cell", f.fd.Pos(), "Set must copy Derivative[i] for all i<N and Hessian[i][j] for all i,j<N from the source: "+bad)
	}
	// SetVariable
	if f, cons := get("SetVariable"); f != nil {
		var seed *facc
		acc := f.accesses()
		for i := range acc {
			a := &acc[i]
			if a.write && a.field == "Derivative" && len(a.idx) == 1 && a.idx[0].kind == "param" && a.idx[0].k == 0 && isOneConst(info, a.rhs) {
				seed = a
			} else if a.write {
				c.Fail(R, cons, "unexpected derivative store", a.pos, "SetVariable writes derivative storage other than the seed")
			}
		}
		c.Check(seed != nil, R, cons, "seed dx_i/dx_i = 1", f.fd.Pos(), "SetVariable(i,n,order) must store Derivative[i] = 1")
		var alloc, reset *ast.CallExpr
		for _, ce := range f.callsOnRecv() {
			switch calleeName(ce) {
			case "Alloc":
				if len(ce.Args) == 2 && f.norm(ce.Args[0]) == "P1" && f.norm(ce.Args[1]) == "P2" {
					alloc = ce
				}
			case "ResetDerivatives":
				reset = ce
			}
		}
		c.Check(alloc != nil, R, cons, "Alloc(n, order)", f.fd.Pos(), "SetVariable must size the storage with Alloc(n, order)")
		if seed != nil && alloc != nil {
			cf := core.NewFuncCFG(f.fd.Body, info)
			okClear := reset != nil && cf.NodeDominates(alloc.Pos(), reset.Pos()) && cf.NodeDominates(reset.Pos(), seed.pos)
			c.Check(okClear, R, cons, "stale derivatives cleared before seeding", seed.pos,
				"Alloc keeps the old cells when (N, order) are unchanged, so re-activating a scalar that already carries derivatives leaves them next to the new seed; ResetDerivatives() must run between Alloc and the seed store")
		}
	}
	// Clone
	if f, cons := get("Clone"); f != nil {
		ok := false
		ast.Inspect(f.fd.Body, func(n ast.Node) bool {
			if ce, ok2 := n.(*ast.CallExpr); ok2 && (calleeName(ce) == "Set" || calleeName(ce) == "SET") && len(ce.Args) == 1 {
				if id, ok3 := ast.Unparen(ce.Args[0]).(*ast.Ident); ok3 && info.Uses[id] == f.recv {
					ok = true
				}
			}
			return true
		})
		c.Check(ok, R, cons, "fresh scalar Set from the receiver", f.fd.Pos(), "Clone must copy value and derivatives through Set")
	}
}

func otherReturnsZero(f *fnCtx) bool {
	ok := true
	n := 0
	ast.Inspect(f.fd.Body, func(x ast.Node) bool {
		if rs, ok2 := x.(*ast.ReturnStmt); ok2 && len(rs.Results) == 1 {
			n++
			hasField := false
			ast.Inspect(rs.Results[0], func(y ast.Node) bool {
				if s, ok3 := y.(*ast.SelectorExpr); ok3 && (s.Sel.Name == "Derivative" || s.Sel.Name == "Hessian") {
					hasField = true
				}
				return true
			})
			if !hasField && !isZeroConst(f.info, rs.Results[0]) {
				ok = false
			}
		}
		return true
	})
	return ok && n >= 1
}

func mentionsParam(f *fnCtx, e ast.Expr, k int) bool {
	if e == nil || k >= len(f.params) {
		return false
	}
	found := false
	ast.Inspect(e, func(n ast.Node) bool {
		if id, ok := n.(*ast.Ident); ok && f.info.Uses[id] == f.params[k] {
			found = true
		}
		return true
	})
	return found
}

// ---------------------------------------------------------------------------
// R6: composites stay inside the AD algebra

var compositeNames = []string{"Min", "Max", "Abs", "LogAdd", "LogSub", "Log1pExp", "Sigmoid", "Logistic", "Sqrt",
	"SmoothMax", "LogSmoothMax", "Vmean", "VdotV", "Vnorm", "Mnorm", "Mtrace",
	"MIN", "MAX", "ABS", "LOGADD", "LOGSUB"}

func checkCompositeConsistency(c *core.Ctx, pkg *packages.Package, T string) {
	for _, name := range compositeNames {
		fd := core.FindMethod(pkg, T, name)
		if fd == nil {
			continue
		}
		cons := "(*" + T + ")." + name
		paths, und := vn.Run(vn.Config{Pkg: pkg, TypeName: T, Spec: scalarSpec, InlineOps: inlineOps}, fd)
		if und != nil {
			c.Unknown("C01.R6", cons, "interpretation", und.Pos, und.Msg)
			continue
		}
		bad := ""
		var badPos token.Pos
		for _, p := range paths {
			if p.Panic {
				continue
			}
			for _, e := range p.Events {
				if e.Kind == "setfloat" && !e.Recv.Consistent && e.Recv != nil {
					// a temporary reset to a non-constant float only matters if it reaches the receiver
				}
			}
			if p.Recv != nil && p.Recv.Written && !p.Recv.Consistent {
				bad = "on path [" + p.CondString() + "] the receiver's value " + p.Recv.Val.String() + " was stored with SetFloat64 from operand values: the derivatives of the result are lost"
				badPos = fd.Pos()
			}
		}
		c.Check(bad == "", "C01.R6", cons, "result produced by scalar operations only", badPos, bad)
	}
}

// ---------------------------------------------------------------------------
// container Variables(order)

func checkContainerVariables(c *core.Ctx, pkg *packages.Package) {
	info := pkg.TypesInfo
	n := 0
	core.EachFunc(pkg, func(_ *ast.File, fd *ast.FuncDecl) {
		if fd.Name.Name != "Variables" {
			return
		}
		n++
		cons := c.FuncName(pkg, fd)
		f := newFnCtx(pkg, fd)
		var orderPar types.Object
		for _, p := range f.params {
			if b, ok := p.Type().Underlying().(*types.Basic); ok && b.Kind() == types.Int {
				orderPar = p
			}
		}
		ok := false
		msg := "no SetVariable call inside a range loop"
		ast.Inspect(fd.Body, func(x ast.Node) bool {
			rs, isR := x.(*ast.RangeStmt)
			if !isR {
				return true
			}
			key, _ := rs.Key.(*ast.Ident)
			ast.Inspect(rs.Body, func(y ast.Node) bool {
				ce, isC := y.(*ast.CallExpr)
				if !isC || calleeName(ce) != "SetVariable" || len(ce.Args) != 3 {
					return true
				}
				a0, _ := ast.Unparen(ce.Args[0]).(*ast.Ident)
				a2, _ := ast.Unparen(ce.Args[2]).(*ast.Ident)
				switch {
				case key == nil || a0 == nil || info.Uses[a0] != info.Defs[key]:
					msg = "element k is not seeded with its own index k"
				case a2 == nil || info.Uses[a2] != orderPar:
					msg = "order argument is not the requested order"
				default:
					// total: len(ranged) | X.n | X.Dim()
					tot := types.ExprString(ce.Args[1])
					rng := types.ExprString(rs.X)
					if tot == "len("+rng+")" || strings.HasSuffix(tot, ".n") || strings.HasSuffix(tot, ".Dim()") {
						ok = true
					} else {
						msg = "total number of variables " + tot + " is not the size of the container"
					}
				}
				return true
			})
			return true
		})
		if !ok {
			// matrices seen through a view: n, m := X.Dims(); for i < n { for j < m { X.AT(i,j).SetVariable(i*m + j, n*m, order) } }
			if variablesRowMajorForm(info, fd, orderPar) || variablesSparseViewForm(info, fd, orderPar) {
				ok = true
			}
		}
		c.Check(ok, "C01.R4", cons, "element k seeded as variable k of Dim", fd.Pos(), msg)
	})
	c.Analysed["variables_methods"] = n
}

// variablesRowMajorForm recognises the seeding of a matrix through its element accessor: with n, m := X.Dims(), two
// nested counted loops i < n, j < m from 0, and X.AT(i, j).SetVariable(i*m + j, n*m, order). The numbering i*m + j is a
// bijection of the index pairs onto 0 .. n*m-1, so every element is seeded as its own variable of n*m.
func variablesRowMajorForm(info *types.Info, fd *ast.FuncDecl, orderPar types.Object) bool {
	var nObj, mObj types.Object
	ast.Inspect(fd.Body, func(x ast.Node) bool {
		as, ok := x.(*ast.AssignStmt)
		if !ok || len(as.Lhs) != 2 || len(as.Rhs) != 1 {
			return true
		}
		if ce, ok := ast.Unparen(as.Rhs[0]).(*ast.CallExpr); ok && calleeName(ce) == "Dims" && len(ce.Args) == 0 {
			if a, ok := as.Lhs[0].(*ast.Ident); ok {
				nObj = info.Defs[a]
			}
			if b, ok := as.Lhs[1].(*ast.Ident); ok {
				mObj = info.Defs[b]
			}
		}
		return true
	})
	if nObj == nil || mObj == nil {
		return false
	}
	loopVar := func(fs *ast.ForStmt, bound types.Object) types.Object {
		init, ok := fs.Init.(*ast.AssignStmt)
		if !ok || len(init.Lhs) != 1 || len(init.Rhs) != 1 {
			return nil
		}
		if tv, ok := info.Types[init.Rhs[0]]; !ok || tv.Value == nil || tv.Value.ExactString() != "0" {
			return nil
		}
		id, ok := init.Lhs[0].(*ast.Ident)
		if !ok {
			return nil
		}
		v := info.Defs[id]
		be, ok := ast.Unparen(fs.Cond).(*ast.BinaryExpr)
		if !ok || be.Op != token.LSS {
			return nil
		}
		l, ok1 := ast.Unparen(be.X).(*ast.Ident)
		r, ok2 := ast.Unparen(be.Y).(*ast.Ident)
		if !ok1 || !ok2 || info.Uses[l] != v || info.Uses[r] != bound {
			return nil
		}
		if inc, ok := fs.Post.(*ast.IncDecStmt); !ok || inc.Tok != token.INC {
			return nil
		}
		return v
	}
	good := false
	ast.Inspect(fd.Body, func(x ast.Node) bool {
		outer, ok := x.(*ast.ForStmt)
		if !ok {
			return true
		}
		iv := loopVar(outer, nObj)
		if iv == nil || len(outer.Body.List) != 1 {
			return true
		}
		inner, ok := outer.Body.List[0].(*ast.ForStmt)
		if !ok {
			return true
		}
		jv := loopVar(inner, mObj)
		if jv == nil {
			return true
		}
		ast.Inspect(inner.Body, func(y ast.Node) bool {
			ce, ok := y.(*ast.CallExpr)
			if !ok || calleeName(ce) != "SetVariable" || len(ce.Args) != 3 {
				return true
			}
			// receiver: X.AT(i, j) / X.At(i, j)
			sel, ok := ast.Unparen(ce.Fun).(*ast.SelectorExpr)
			if !ok {
				return true
			}
			at, ok := ast.Unparen(sel.X).(*ast.CallExpr)
			if !ok || len(at.Args) != 2 || !strings.EqualFold(calleeName(at), "at") {
				return true
			}
			isVar := func(e ast.Expr, o types.Object) bool {
				id, ok := ast.Unparen(e).(*ast.Ident)
				return ok && info.Uses[id] == o
			}
			if !isVar(at.Args[0], iv) || !isVar(at.Args[1], jv) {
				return true
			}
			// index: i*m + j
			sum, ok := ast.Unparen(ce.Args[0]).(*ast.BinaryExpr)
			if !ok || sum.Op != token.ADD {
				return true
			}
			prod, ok := ast.Unparen(sum.X).(*ast.BinaryExpr)
			if !ok || prod.Op != token.MUL || !isVar(sum.Y, jv) {
				return true
			}
			if !(isVar(prod.X, iv) && isVar(prod.Y, mObj) || isVar(prod.X, mObj) && isVar(prod.Y, iv)) {
				return true
			}
			// total: n*m
			tot, ok := ast.Unparen(ce.Args[1]).(*ast.BinaryExpr)
			if !ok || tot.Op != token.MUL || !(isVar(tot.X, nObj) && isVar(tot.Y, mObj) || isVar(tot.X, mObj) && isVar(tot.Y, nObj)) {
				return true
			}
			if !isVar(ce.Args[2], orderPar) {
				return true
			}
			good = true
			return true
		})
		return true
	})
	return good
}

// variablesSparseViewForm recognises the seeding of a sparse matrix through its stored entries: with n, m := X.Dims(),
// a range over the value map with key k, i, j := X.ij(k), a `continue` for coordinates outside [0,n) x [0,m), and
// v.SetVariable(i*m + j, n*m, order) on the range value. Stored entries inside the view get their own row-major number.
func variablesSparseViewForm(info *types.Info, fd *ast.FuncDecl, orderPar types.Object) bool {
	var nObj, mObj types.Object
	ast.Inspect(fd.Body, func(x ast.Node) bool {
		as, ok := x.(*ast.AssignStmt)
		if !ok || len(as.Lhs) != 2 || len(as.Rhs) != 1 {
			return true
		}
		if ce, ok := ast.Unparen(as.Rhs[0]).(*ast.CallExpr); ok && calleeName(ce) == "Dims" && len(ce.Args) == 0 {
			if a, ok := as.Lhs[0].(*ast.Ident); ok {
				nObj = info.Defs[a]
			}
			if b, ok := as.Lhs[1].(*ast.Ident); ok {
				mObj = info.Defs[b]
			}
		}
		return true
	})
	if nObj == nil || mObj == nil {
		return false
	}
	good := false
	ast.Inspect(fd.Body, func(x ast.Node) bool {
		rs, ok := x.(*ast.RangeStmt)
		if !ok {
			return true
		}
		key, ok1 := rs.Key.(*ast.Ident)
		val, ok2 := rs.Value.(*ast.Ident)
		if !ok1 || !ok2 {
			return true
		}
		var iObj, jObj types.Object
		guarded := false
		isVar := func(e ast.Expr, o types.Object) bool {
			id, ok := ast.Unparen(e).(*ast.Ident)
			return ok && o != nil && info.Uses[id] == o
		}
		for _, st := range rs.Body.List {
			switch y := st.(type) {
			case *ast.AssignStmt:
				if len(y.Lhs) == 2 && len(y.Rhs) == 1 {
					if ce, ok := ast.Unparen(y.Rhs[0]).(*ast.CallExpr); ok && calleeName(ce) == "ij" && len(ce.Args) == 1 && isVar(ce.Args[0], info.Defs[key]) {
						if a, ok := y.Lhs[0].(*ast.Ident); ok {
							iObj = info.Defs[a]
						}
						if b, ok := y.Lhs[1].(*ast.Ident); ok {
							jObj = info.Defs[b]
						}
					}
				}
			case *ast.IfStmt:
				// if i < 0 || i >= n || j < 0 || j >= m { continue }
				if len(y.Body.List) == 1 {
					if br, ok := y.Body.List[0].(*ast.BranchStmt); ok && br.Tok == token.CONTINUE {
						seen := map[string]bool{}
						var walk func(e ast.Expr)
						walk = func(e ast.Expr) {
							be, ok := ast.Unparen(e).(*ast.BinaryExpr)
							if !ok {
								return
							}
							if be.Op == token.LOR {
								walk(be.X)
								walk(be.Y)
								return
							}
							switch {
							case be.Op == token.LSS && isVar(be.X, iObj) && types.ExprString(be.Y) == "0":
								seen["i<0"] = true
							case be.Op == token.LSS && isVar(be.X, jObj) && types.ExprString(be.Y) == "0":
								seen["j<0"] = true
							case be.Op == token.GEQ && isVar(be.X, iObj) && isVar(be.Y, nObj):
								seen["i>=n"] = true
							case be.Op == token.GEQ && isVar(be.X, jObj) && isVar(be.Y, mObj):
								seen["j>=m"] = true
							}
						}
						walk(y.Cond)
						if len(seen) == 4 {
							guarded = true
						}
					}
				}
				// if err := v.SetVariable(...); err != nil { return err }
				if y.Init != nil && guarded {
					ast.Inspect(y.Init, func(z ast.Node) bool {
						ce, ok := z.(*ast.CallExpr)
						if !ok || calleeName(ce) != "SetVariable" || len(ce.Args) != 3 {
							return true
						}
						sel, ok := ast.Unparen(ce.Fun).(*ast.SelectorExpr)
						if !ok || !isVar(sel.X, info.Defs[val]) {
							return true
						}
						sum, ok := ast.Unparen(ce.Args[0]).(*ast.BinaryExpr)
						if !ok || sum.Op != token.ADD || !isVar(sum.Y, jObj) {
							return true
						}
						prod, ok := ast.Unparen(sum.X).(*ast.BinaryExpr)
						if !ok || prod.Op != token.MUL || !(isVar(prod.X, iObj) && isVar(prod.Y, mObj) || isVar(prod.X, mObj) && isVar(prod.Y, iObj)) {
							return true
						}
						tot, ok := ast.Unparen(ce.Args[1]).(*ast.BinaryExpr)
						if !ok || tot.Op != token.MUL || !(isVar(tot.X, nObj) && isVar(tot.Y, mObj) || isVar(tot.X, mObj) && isVar(tot.Y, nObj)) {
							return true
						}
						if isVar(ce.Args[2], orderPar) {
							good = true
						}
						return true
					})
				}
			}
		}
		return true
	})
	return good
}
