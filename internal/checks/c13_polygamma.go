package checks

import (
	"fmt"
	"go/token"
	"go/types"
	"math/big"

	"verif/internal/core"
	"verif/internal/sym"
	"verif/internal/vn"
)

// ---- R9: polygamma series -------------------------------------------------------------------------------------------
//
// (a) polygamma_atinfinityplus(n, x), n = 2, 3, with the series cut after K = 1, 2 terms (iteration limit bound to 2) and
//     BernoulliNumber opaque, returns
//         (-1)^(n+1) [ (n-1)!/x^n + n!/(2 x^(n+1)) + sum_{k=1..K} B(2k) (2k+n-1)! / ((2k)! x^(2k+n)) ]
//     as a term identity: in particular the k-th term carries the Bernoulli number B_2k.
// (b) polygamma_attransitionplus(n, x): the branch that sums powers and the branch that sums exponentials of logarithms
//     (taken when the powers would underflow) compute the same number.

func polyHook(p *types.Package, trunc *sym.Term) func(fn *types.Func) func([]vn.Value) vn.Value {
	return func(fn *types.Func) func([]vn.Value) vn.Value {
		if fn.Pkg() == nil {
			return nil
		}
		if fn.Pkg().Path() == "math" {
			switch fn.Name() {
			case "Lgamma":
				return func(args []vn.Value) vn.Value {
					u, _ := args[0].(*sym.Term)
					return vn.Tuple{sym.Fn("log", gammaOf(u)), sym.One()}
				}
			case "Trunc":
				if trunc != nil {
					return func(args []vn.Value) vn.Value { return trunc }
				}
			}
			return nil
		}
		if fn.Pkg() != p {
			return nil
		}
		switch fn.Name() {
		case "BernoulliNumber":
			return func(args []vn.Value) vn.Value {
				u, _ := args[0].(*sym.Term)
				return sym.Fn("B", u)
			}
		case "Factorial":
			return func(args []vn.Value) vn.Value {
				u, _ := args[0].(*sym.Term)
				return gammaOf(sym.Add(u, sym.One()))
			}
		case "polygamma_atinfinityplus":
			return func(args []vn.Value) vn.Value {
				a, _ := args[0].(*sym.Term)
				b, _ := args[1].(*sym.Term)
				return sym.Fn("psi_n_asymptotic", a, b)
			}
		}
		return nil
	}
}

// gammaOf: Gamma(u) as a number for a small positive integer u, else an atom.
func gammaOf(u *sym.Term) *sym.Term {
	if c, ok := u.IsConst(); ok && c.IsInt() && c.Sign() > 0 && c.Num().IsInt64() && c.Num().Int64() <= 30 {
		f := big.NewInt(1)
		for i := int64(2); i < c.Num().Int64(); i++ {
			f.Mul(f, big.NewInt(i))
		}
		return sym.Const(new(big.Rat).SetInt(f))
	}
	return sym.Fn("gamma", u)
}

func factRat(k int64) *big.Rat {
	f := big.NewInt(1)
	for i := int64(2); i <= k; i++ {
		f.Mul(f, big.NewInt(i))
	}
	return new(big.Rat).SetInt(f)
}

func checkPolygammaSeries(c *core.Ctx) {
	c.Rule("C13.R9", "polygamma: the asymptotic series carries the Bernoulli numbers B_2k with the coefficients of the Euler-Maclaurin expansion (n = 2, 3; one and two terms); the power and the logarithmic branch of the transition sum agree", 5)
	p := c.Pkg("special")
	if p == nil {
		c.Unknown("C13.R9", "special", "package loaded", token.NoPos, "not loaded")
		return
	}
	d := newDeclIndex(c)
	x := sym.Sym("x")
	// (a)
	fd := findFuncDecl(p, "polygamma_atinfinityplus")
	cons := "special.polygamma_atinfinityplus"
	if fd == nil {
		c.Unknown("C13.R9", cons, "function found", token.NoPos, "not found")
	} else {
		for _, n := range []int64{2, 3} {
			cfg := vn.Config{Pkg: p, TypeName: "Real64", Spec: distSpec, InlineOps: inlineOps, Decl: d.find, MaxDepth: 4, FiniteSyms: true, GlobalSyms: true, UnrollConst: true,
				ParamSyms: []string{"n", "x"}, ParamList: []vn.Value{sym.Int(n), nil}, CallHook: polyHook(p.Types, nil),
				GlobalVals: map[string]*sym.Term{"SeriesIterationsMax": sym.Int(2), "factorialMax": sym.Int(21)}}
			paths, und := vn.Run(cfg, fd)
			if und != nil {
				c.Unknown("C13.R9", cons, fmt.Sprintf("interpreted [n=%d]", n), und.Pos, "polygamma_atinfinityplus left the interpreter's idiom set: "+und.Msg)
				continue
			}
			sign := sym.One()
			if (n+1)%2 == 1 {
				sign = sym.Int(-1)
			}
			seen := map[int]bool{}
			for _, pa := range paths {
				rt, _ := pa.Ret.(*sym.Term)
				if pa.Panic || rt == nil {
					continue
				}
				// number of series terms on this path: Bernoulli atoms in the result
				K := 0
				for _, at := range rt.Atoms() {
					if at.Kind == "B" {
						K++
					}
				}
				if K == 0 {
					continue // huge-x shortcut or zero leading term
				}
				// only the power form of the leading term (the logarithmic start is the same number written with exp/log)
				want := sym.Add(sym.Div(sym.Const(factRat(n-1)), sym.PowInt(x, int(n))), sym.Div(sym.Const(factRat(n)), sym.Mul(sym.Int(2), sym.PowInt(x, int(n+1)))))
				for k := int64(1); k <= int64(K); k++ {
					coef := new(big.Rat).Quo(factRat(2*k+n-1), factRat(2*k))
					want = sym.Add(want, sym.Div(sym.Mul(sym.Fn("B", sym.Int(2*k)), sym.Const(coef)), sym.PowInt(x, int(2*k+n))))
				}
				want = sym.Mul(sign, want)
				got := rt
				ok := sym.Equal(got, want)
				if !ok {
					u := sym.UnifyExp(sym.NormExp(got), sym.NormExp(want))
					ok = sym.Equal(u[0], u[1]) || sym.Equal(sym.SplitPow(u[0]), sym.SplitPow(u[1]))
				}
				detail := fmt.Sprintf("[n=%d] %d series term(s) [%s]", n, K, clip(pa.CondString(), 100))
				c.Check(ok, "C13.R9", cons, detail, fd.Pos(),
					"the series evaluates to "+clip(got.String(), 260)+" where the Euler-Maclaurin expansion is "+clip(want.String(), 260)+" (B(j) stands for BernoulliNumber(j)): a wrong Bernoulli index or coefficient makes every polygamma value for n >= 2 off in the third digit")
				seen[K] = true
			}
			if !seen[1] && !seen[2] {
				c.Unknown("C13.R9", cons, fmt.Sprintf("[n=%d] series paths", n), fd.Pos(), "no path with one or two series terms")
			}
		}
	}
	// (b)
	ft := findFuncDecl(p, "polygamma_attransitionplus")
	cons = "special.polygamma_attransitionplus"
	if ft == nil {
		c.Unknown("C13.R9", cons, "function found", token.NoPos, "not found")
		return
	}
	n := int64(2)
	// N = 6 + 4n = 14 for n = 2; Trunc(x) := 12 gives two shift steps
	cfg := vn.Config{Pkg: p, TypeName: "Real64", Spec: distSpec, InlineOps: inlineOps, Decl: d.find, MaxDepth: 4, FiniteSyms: true, GlobalSyms: true, UnrollConst: true,
		ParamSyms: []string{"n", "x"}, ParamList: []vn.Value{sym.Int(n), nil}, CallHook: polyHook(p.Types, sym.Int(12)),
		GlobalVals: map[string]*sym.Term{"SeriesIterationsMax": sym.Int(1000), "PrecisionFloat64": sym.Int(53)}}
	paths, und := vn.Run(cfg, ft)
	if und != nil {
		c.Unknown("C13.R9", cons, "interpreted", und.Pos, "polygamma_attransitionplus left the interpreter's idiom set: "+und.Msg)
		return
	}
	var rets []*sym.Term
	for _, pa := range paths {
		rt, _ := pa.Ret.(*sym.Term)
		if pa.Panic || rt == nil {
			continue
		}
		rets = append(rets, rt)
	}
	if len(rets) != 2 {
		c.Unknown("C13.R9", cons, "power branch and logarithmic branch", ft.Pos(), fmt.Sprintf("%d value paths, expected the two branches of the underflow test", len(rets)))
		return
	}
	a, b := rets[0], rets[1]
	ok := sym.Equal(a, b)
	if !ok {
		u := sym.UnifyExp(sym.NormExp(a), sym.NormExp(b))
		ok = sym.Equal(u[0], u[1]) || sym.Equal(sym.SplitPow(u[0]), sym.SplitPow(u[1])) || sym.Equal(sym.LogExpand(u[0]), sym.LogExpand(u[1]))
	}
	c.Check(ok, "C13.R9", cons, "power branch and logarithmic branch agree [n=2, two shift steps]", ft.Pos(),
		"the two branches return "+clip(a.String(), 240)+" and "+clip(b.String(), 240)+": the branch taken when the powers would underflow computes a different sum")
	// and the shift sum itself: (-1)^(n+1) n! sum_k (x+k)^(-n-1)
	want := sym.Zero()
	for k := int64(0); k < 2; k++ {
		want = sym.Add(want, sym.Div(sym.Const(factRat(n)), sym.PowInt(sym.Add(x, sym.Int(k)), int(n+1))))
	}
	want = sym.Add(sym.Neg(want), sym.Fn("psi_n_asymptotic", sym.Int(n), sym.Add(x, sym.Int(2))))
	okw := sym.Equal(a, want) || sym.Equal(b, want)
	if !okw {
		u := sym.UnifyExp(sym.NormExp(a), sym.NormExp(want))
		okw = sym.Equal(sym.SplitPow(u[0]), sym.SplitPow(u[1]))
	}
	c.Check(okw, "C13.R9", cons, "shift sum is (-1)^(n+1) n! sum (x+k)^(-n-1) [n=2]", ft.Pos(),
		"the transition sum returns "+clip(a.String(), 240)+" where psi_n(x) = psi_n(x+m) - (-1)^(n+1) n! sum_{k<m} (x+k)^(-n-1) gives "+clip(want.String(), 240))
}
