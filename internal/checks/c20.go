package checks

import (
	"fmt"
	"go/ast"
	"go/printer"
	"go/token"
	"go/types"
	"os"
	"sort"
	"strings"

	"golang.org/x/tools/go/packages"

	"verif/internal/core"
	"verif/internal/sym"
	"verif/internal/vn"
)

func init() { Registry["C20"] = checkC20 }

// ---------------------------------------------------------------------------
// R1 loop census

type loopInfo struct {
	fn    string
	pkg   *packages.Package
	fd    *ast.FuncDecl
	stmt  ast.Stmt
	class string // range counted iterator reader uncounted modified
	shape string
	exits int
	ord   int // ordinal among non-derivable loops of the function
	pos   token.Pos
}

func countExits(info *types.Info, body *ast.BlockStmt) int {
	n := 0
	depth := 0
	var walk func(node ast.Node)
	walk = func(node ast.Node) {
		ast.Inspect(node, func(x ast.Node) bool {
			switch s := x.(type) {
			case *ast.ForStmt, *ast.RangeStmt:
				if x != node {
					depth++
					walk2(s, &depth, &n, info)
					depth--
					return false
				}
			case *ast.FuncLit:
				return false
			case *ast.BranchStmt:
				if s.Tok == token.BREAK && depth == 0 {
					n++
				}
				if s.Tok == token.GOTO {
					n++
				}
			case *ast.ReturnStmt:
				n++
			case *ast.CallExpr:
				if id, ok := s.Fun.(*ast.Ident); ok && id.Name == "panic" {
					n++
				}
			}
			return true
		})
	}
	walk(body)
	return n
}

// walk2 counts only returns/panics inside nested loops (breaks there leave the inner loop only).
func walk2(node ast.Node, depth *int, n *int, info *types.Info) {
	ast.Inspect(node, func(x ast.Node) bool {
		switch s := x.(type) {
		case *ast.FuncLit:
			return false
		case *ast.ReturnStmt:
			*n++
		case *ast.CallExpr:
			if id, ok := s.Fun.(*ast.Ident); ok && id.Name == "panic" {
				*n++
			}
		}
		return true
	})
}

func assignsTo(info *types.Info, body ast.Node, objs map[types.Object]bool) bool {
	found := false
	ast.Inspect(body, func(n ast.Node) bool {
		switch x := n.(type) {
		case *ast.AssignStmt:
			for _, l := range x.Lhs {
				if id, ok := ast.Unparen(l).(*ast.Ident); ok {
					o := info.Uses[id]
					if o == nil {
						o = info.Defs[id]
					}
					// shadowing definitions are different objects and do not count
					if objs[o] && !(x.Tok == token.DEFINE && info.Defs[id] != nil) {
						found = true
					}
				}
			}
		case *ast.IncDecStmt:
			if id, ok := ast.Unparen(x.X).(*ast.Ident); ok && objs[info.Uses[id]] {
				found = true
			}
		case *ast.UnaryExpr:
			if x.Op == token.AND {
				if id, ok := ast.Unparen(x.X).(*ast.Ident); ok && objs[info.Uses[id]] {
					found = true
				}
			}
		}
		return true
	})
	return found
}

func classifyLoop(info *types.Info, fs *ast.ForStmt) (class, shape string) {
	switch {
	case fs.Init == nil && fs.Cond == nil && fs.Post == nil:
		shape = "for{}"
	case fs.Init == nil && fs.Post == nil:
		shape = "for cond"
	case fs.Cond == nil:
		shape = "for init;;post"
	case fs.Post == nil:
		shape = "for init;cond;"
	default:
		shape = "for init;cond;post"
	}
	// iterator loop
	if fs.Cond != nil && fs.Post != nil {
		if ce, ok := fs.Cond.(*ast.CallExpr); ok && calleeName(ce) == "Ok" {
			if es, ok := fs.Post.(*ast.ExprStmt); ok {
				if pc, ok := es.X.(*ast.CallExpr); ok && calleeName(pc) == "Next" {
					if types.ExprString(ce.Fun.(*ast.SelectorExpr).X) == types.ExprString(pc.Fun.(*ast.SelectorExpr).X) {
						return "iterator", shape
					}
				}
			}
		}
	}
	// iterator while-style: for X.Ok() && ... { ... next }
	if fs.Cond != nil && fs.Init == nil && fs.Post == nil {
		isOk := false
		ast.Inspect(fs.Cond, func(n ast.Node) bool {
			if ce, ok := n.(*ast.CallExpr); ok && calleeName(ce) == "Ok" {
				isOk = true
			}
			return true
		})
		if isOk {
			adv := false
			ast.Inspect(fs.Body, func(n ast.Node) bool {
				if ce, ok := n.(*ast.CallExpr); ok && (calleeName(ce) == "Next" || calleeName(ce) == "next") {
					adv = true
				}
				return true
			})
			if adv {
				return "iterator", shape
			}
		}
	}
	if fs.Cond == nil && fs.Post != nil {
		if p, ok := fs.Post.(*ast.IncDecStmt); ok && p.Tok == token.INC {
			if id, ok := p.X.(*ast.Ident); ok && cappedByCounter(info, fs, info.Uses[id]) {
				return "counted", shape + " (capped by the step counter)"
			}
		}
	}
	if fs.Cond == nil || fs.Post == nil {
		return "uncounted", shape
	}
	// counted: i OP bound ; i++ / i-- / i += c
	be, ok := fs.Cond.(*ast.BinaryExpr)
	if !ok {
		return "uncounted", shape
	}
	var iv types.Object
	up := true
	switch p := fs.Post.(type) {
	case *ast.IncDecStmt:
		if id, ok := p.X.(*ast.Ident); ok {
			iv = info.Uses[id]
		}
		up = p.Tok == token.INC
	case *ast.AssignStmt:
		if len(p.Lhs) == 1 && (p.Tok == token.ADD_ASSIGN || p.Tok == token.SUB_ASSIGN) {
			if id, ok := p.Lhs[0].(*ast.Ident); ok {
				iv = info.Uses[id]
			}
			up = p.Tok == token.ADD_ASSIGN
		}
	}
	if iv == nil {
		return "uncounted", shape
	}
	// condition: iv < bound (up) or iv > / >= bound (down); allow conjunctions with other tests
	okCond := false
	var boundVars = map[types.Object]bool{}
	var scan func(e ast.Expr)
	scan = func(e ast.Expr) {
		b, ok := ast.Unparen(e).(*ast.BinaryExpr)
		if !ok {
			return
		}
		if b.Op == token.LAND {
			scan(b.X)
			scan(b.Y)
			return
		}
		lid, lok := ast.Unparen(b.X).(*ast.Ident)
		rid, rok := ast.Unparen(b.Y).(*ast.Ident)
		var bound ast.Expr
		switch {
		case lok && info.Uses[lid] == iv:
			if up && (b.Op == token.LSS || b.Op == token.LEQ || b.Op == token.NEQ) || !up && (b.Op == token.GTR || b.Op == token.GEQ || b.Op == token.NEQ) {
				okCond = true
				bound = b.Y
			}
		case rok && info.Uses[rid] == iv:
			if up && (b.Op == token.GTR || b.Op == token.GEQ) || !up && (b.Op == token.LSS || b.Op == token.LEQ) {
				okCond = true
				bound = b.X
			}
		}
		if bound != nil {
			ast.Inspect(bound, func(n ast.Node) bool {
				if id, ok := n.(*ast.Ident); ok {
					if v, ok := info.Uses[id].(*types.Var); ok && !v.IsField() {
						boundVars[v] = true
					}
				}
				return true
			})
		}
	}
	scan(be)
	if !okCond {
		if up && cappedByCounter(info, fs, iv) {
			return "counted", shape + " (capped by the step counter)"
		}
		return "uncounted", shape
	}
	if assignsTo(info, fs.Body, map[types.Object]bool{iv: true}) {
		return "modified", shape + " (body writes the induction variable)"
	}
	if len(boundVars) > 0 && assignsTo(info, fs.Body, boundVars) {
		return "modified", shape + " (body writes the bound)"
	}
	return "counted", shape
}

// cappedByCounter: the loop's post statement increments iv, the body never assigns iv, and a top-level statement of the
// body is `if iv > B { return / break / panic }` (or >=) with B not assigned in the body: the loop ends after at most B+1
// cycles whatever its own condition does.
func cappedByCounter(info *types.Info, fs *ast.ForStmt, iv types.Object) bool {
	if iv == nil || assignsTo(info, fs.Body, map[types.Object]bool{iv: true}) {
		return false
	}
	for _, st := range fs.Body.List {
		is, ok := st.(*ast.IfStmt)
		if !ok || is.Init != nil || len(is.Body.List) == 0 {
			continue
		}
		be, ok := ast.Unparen(is.Cond).(*ast.BinaryExpr)
		if !ok || (be.Op != token.GTR && be.Op != token.GEQ) {
			continue
		}
		id, ok := ast.Unparen(be.X).(*ast.Ident)
		if !ok || info.Uses[id] != iv {
			continue
		}
		bound := map[types.Object]bool{}
		ast.Inspect(be.Y, func(n ast.Node) bool {
			if b, ok := n.(*ast.Ident); ok {
				if v, ok := info.Uses[b].(*types.Var); ok && !v.IsField() {
					bound[v] = true
				}
			}
			return true
		})
		if len(bound) > 0 && assignsTo(info, fs.Body, bound) {
			continue
		}
		switch last := is.Body.List[len(is.Body.List)-1].(type) {
		case *ast.ReturnStmt:
			return true
		case *ast.BranchStmt:
			if last.Tok == token.BREAK && last.Label == nil {
				return true
			}
		case *ast.ExprStmt:
			if ce, ok := last.X.(*ast.CallExpr); ok && calleeName(ce) == "panic" {
				return true
			}
		}
	}
	return false
}

func loopCensus(c *core.Ctx) []loopInfo {
	var res []loopInfo
	for _, p := range c.LibPkgs() {
		info := p.TypesInfo
		core.EachFunc(p, func(_ *ast.File, fd *ast.FuncDecl) {
			fn := c.FuncName(p, fd)
			ord := 0
			ast.Inspect(fd.Body, func(n ast.Node) bool {
				switch s := n.(type) {
				case *ast.RangeStmt:
					res = append(res, loopInfo{fn: fn, pkg: p, fd: fd, stmt: s, class: "range", pos: s.Pos()})
				case *ast.ForStmt:
					cl, sh := classifyLoop(info, s)
					li := loopInfo{fn: fn, pkg: p, fd: fd, stmt: s, class: cl, shape: sh, pos: s.Pos(), exits: countExits(info, s.Body)}
					if cl == "uncounted" || cl == "modified" {
						li.ord = ord
						ord++
					}
					res = append(res, li)
				}
				return true
			})
		})
	}
	return res
}

// reviewedLoop is an entry of the reviewed table of loops whose termination the census cannot derive.
type reviewedLoop struct {
	fnPattern string // exact function name, or prefix* for generated siblings
	ord       int    // ordinal among the function's non-derivable loops; -1 any
	minExits  int    // number of break/return/panic exits the loop must keep
	reason    string
	finding   bool // open question: listed as known finding when true
}

func matchFn(pat, fn string) bool {
	if strings.Contains(pat, "*") {
		parts := strings.Split(pat, "*")
		rest := fn
		for i, p := range parts {
			idx := strings.Index(rest, p)
			if idx < 0 || (i == 0 && idx != 0) {
				return false
			}
			rest = rest[idx+len(p):]
		}
		return parts[len(parts)-1] == "" || rest == ""
	}
	return pat == fn
}

func checkC20(c *core.Ctx) error {
	if err := c.Load(packages.LoadSyntax); err != nil {
		return err
	}
	c.Explanation = "Termination and loud failure as structural rules: (R1) a census classifies every loop of the library as counted (induction variable and bound not written by the body), range, iterator-driven, or an entry of a reviewed table of convergence loops " +
		"(with the number of exits each must keep); unbounded self-recursion is detected on the CFG; (R2) dimension guards of container operations tie every indexed extent to the receiver's; (R3) the indexing layer tests bounds before computing offsets; " +
		"(R4) every option switch over a variadic argument list rejects unknown options or forwards them; (R5) SetVariable rejects unsupported orders before touching the receiver and the two-argument chain rule rejects operands with different numbers of variables before its loops. " +
		"Numerical convergence of the reviewed loops is not decided (those without an iteration cap are listed as known findings)."
	c.Rule("C20.R1", "loop census: every loop is counted, range, iterator-driven or in the reviewed table with its exits intact; no unconditional self-recursion", 40)
	c.Rule("C20.R2", "dimension guards: in every dense container operation each element access inside a counted loop is bounded by the accessed container's own extent, given the extent equalities the guards establish on that path", 250)
	c.Rule("C20.R3", "index() of every matrix type and the index-taking accessors of sparse vectors test the range before any offset computation or map access; SLICE stays inside the receiver's view", 36)
	c.Rule("C20.R4", "every type switch over a variadic option list has a rejecting default (panic / error) or the options are forwarded to another routine", 25)
	c.Rule("C20.R5", "SetVariable rejects order > 2 before any state change; dyadic combinators panic on different N before their loops", 10)
	if os.Getenv("ADCHECK_DUMP_LOOPS") != "" {
		for _, l := range loopCensus(c) {
			if l.class == "uncounted" || l.class == "modified" {
				fmt.Printf("LOOP %s #%d %s exits=%d %s\n", l.fn, l.ord, l.shape, l.exits, c.PosStr(l.pos))
			}
		}
	}
	checkLoopCensus(c)
	dense, sparse := matrixTypes(c.Root)
	for _, T := range append(append([]string{}, dense...), sparse...) {
		before := len(c.Obls)
		checkIndexBounds(c, c.Root, T)
		for _, o := range c.Obls[before:] {
			o.Rule = "C20.R3"
		}
	}
	checkSliceBounds(c)
	checkRawSubslices(c)
	checkSvdScan(c)
	checkRetryShrinks(c)
	checkAxisExtents(c)
	checkRotationDivisors(c)
	checkRequestedResults(c)
	checkErrorBranches(c)
	checkInterfaceComparisons(c)
	checkOptionalScratch(c)
	checkQRShiftStrategy(c)
	checkBacktrackingProgress(c)
	checkTipGuard(c)
	checkRestartProtocol(c)
	checkOptionSwitches(c)
	checkOptionSpreading(c)
	checkADGuards(c)
	checkDimensionGuards(c)
	return nil
}

var _ = sort.Strings

// reviewed table of loops whose termination the census cannot derive (one line of reason each).
// '#' in a pattern stands for the element type of generated siblings.
var reviewedLoops = []reviewedLoop{
	{"(*Sparse*Vector).Import", -1, 5, "reader: one line per cycle until io.EOF, every other read error returns", false},
	{"(*Sparse*Matrix).Import", -1, 6, "reader: one line per cycle until io.EOF, every other read error returns", false},
	{"(*Dense*Vector).Import", -1, 3, "reader: one line per cycle until io.EOF, every other read error returns", false},
	{"(*Dense*Matrix).Import", -1, 4, "reader: one line per cycle until io.EOF, every other read error returns", false},
	{"(*Dense*Matrix).Tip", 0, 1, "follows one cycle of k -> rows*k mod (mn-1); returns to its start when the receiver owns its whole storage (mn = rows*cols); the view case is reported by C10.R4", false},
	{"(*Sparse*Matrix).Tip", 0, 1, "as dense Tip", false},
	{"(*Dense*Matrix).PermuteRows", 0, 0, "follows one cycle of the permutation: every pass marks an unmarked index in done[], so at most n passes", false},
	{"(*Dense*Matrix).PermuteColumns", 0, 0, "as PermuteRows", false},
	{"(*Sparse*Matrix).PermuteRows", 0, 0, "as dense PermuteRows", false},
	{"(*Sparse*Matrix).PermuteColumns", 0, 0, "as dense PermuteRows", false},
	{"(Dense*Vector).Permute", 0, 0, "follows one cycle of the permutation: every pass marks an unmarked index in done[], so at most n passes", false},
	{"(*Sparse*Vector).Permute", 0, 0, "as dense Permute", false},
	{"(*AvlTree).FindNode", 0, 1, "descent: strictly down a finite acyclic tree (C19.R1)", false},
	{"(*AvlTree).FindNodeLE", 0, 1, "descent: strictly down a finite acyclic tree (C19.R1)", false},
	{"NewAvlIterator", 0, 0, "descent to the leftmost node", false},
	{"(*AvlIterator).Next", -1, 0, "descent to the leftmost node of the right subtree / ascent through parent links", false},
	{"special.digamma_imp", -1, 0, "argument shifted by 1 per cycle towards [1,2]: finite for finite x but O(|x|) cycles", false},
	{"special.lgamma_small_imp", 0, 1, "exit test inverted w.r.t. Boost's do..while(z >= 3); unreachable today (callers pass z < 3)", false},
	{"special.polygamma_nearzero", 0, 2, "series: counter k compared with SeriesIterationsMax on every cycle, panic beyond it", false},
	{"special.polygamma_atinfinityplus", 0, 2, "series: counter k compared with SeriesIterationsMax on every cycle, panic beyond it", false},
	{"algorithm/qrAlgorithm.splitMatrix", 0, 1, "monotone: every cycle decrements p or breaks", false},
	{"algorithm/qrAlgorithm.splitMatrixSymmetric", -1, 1, "monotone: every cycle steps p/q or breaks", false},
	{"algorithm/svd.splitMatrix", -1, 1, "monotone: every cycle steps p/q or breaks", false},
	{"algorithm/eigensystem.getEigenvalues", 0, 0, "counted; the body only increments the induction variable further (skips the second of a complex pair)", false},
	{"algorithm/qrAlgorithm.qrAlgorithm", 0, 0, "deflation loop q < n-1 on |h21| <= eps(|h11|+|h22|), default eps 1e-18: no iteration cap; does not return on NaN input", true},
	{"algorithm/qrAlgorithm.qrAlgorithm", 1, 1, "2x2-block convergence loop: no iteration cap", true},
	{"algorithm/qrAlgorithm.qrAlgorithmSymmetric", 0, 0, "deflation loop: no iteration cap", true},
	{"algorithm/svd.golubKahanSVD", 0, 0, "Golub-Kahan outer loop until diagonal: no iteration cap", true},
	{"algorithm/msqrt.mSqrt", 0, 2, "Denman-Beavers iteration until ||delta|| <= 1e-8: no cap; exits on NaN (comparison false)", true},
	{"algorithm/msqrtInv.mSqrtInv", 0, 1, "iteration until ||delta|| <= 1e-8: no cap; exits on NaN", true},
	{"algorithm/lineSearch.lineSearch", 0, 0, "halves alpha until the constraint holds: ends when alpha underflows to 0 only if the constraint holds at 0", true},
	{"algorithm/newton.newton_root", 0, 2, "step-halving until the constraint holds or x stops changing", false},
	{"algorithm/newton.newton_min", 0, 2, "step-halving until the constraint holds or x stops changing", false},
	{"algorithm/rprop.rprop", 0, 3, "backtracking: step *= eta[1] until the point is valid; ends by underflow iff eta[1] < 1", false},
	{"algorithm/rprop.rprop_dense_with_gradient", 0, 3, "backtracking: step *= eta[1] until the point is valid", false},
	{"algorithm/gradientDescent.gradientDescent", 0, 4, "fixed-step descent until ||g|| < eps: no cap and no MaxIterations option", true},
	{"statistics/generic.emAlgorithm", 0, 4, "EM driver: uncapped when maxSteps = -1; ends when the likelihood gain < epsilon (never for NaN likelihood)", true},
	{"statistics/generic.baumWelchAlgorithm", 0, 4, "Baum-Welch driver: uncapped when maxSteps = -1", true},
}

func checkLoopCensus(c *core.Ctx) {
	loops := loopCensus(c)
	cnt := map[string]int{}
	for _, l := range loops {
		cnt[l.class]++
	}
	for k, v := range cnt {
		c.Analysed["loops_"+k] = v
	}
	c.Check(cnt["counted"] >= 2000 && cnt["range"] >= 200, "C20.R1", "census", "all loops classified", token.NoPos,
		fmt.Sprintf("census saw only %d counted and %d range loops", cnt["counted"], cnt["range"]))
	used := map[int]bool{}
	for _, l := range loops {
		if l.class != "uncounted" && l.class != "modified" {
			continue
		}
		detail := fmt.Sprintf("loop #%d %s", l.ord, l.shape)
		var hit *reviewedLoop
		for i := range reviewedLoops {
			r := &reviewedLoops[i]
			if matchFn(r.fnPattern, l.fn) && (r.ord == -1 || r.ord == l.ord) {
				hit = r
				used[i] = true
				break
			}
		}
		if hit == nil {
			c.Fail("C20.R1", l.fn, detail, l.pos, "loop without a derivable bound (not counted, not a range, not an iterator loop) that is not in the reviewed table: a new convergence loop or a counted loop whose body now writes its induction variable/bound")
			continue
		}
		if l.exits < hit.minExits {
			c.Fail("C20.R1", l.fn, detail, l.pos, fmt.Sprintf("the loop keeps %d break/return/panic exits, the reviewed version had %d: a cap or exit disappeared (%s)", l.exits, hit.minExits, hit.reason))
			continue
		}
		if hit.finding {
			// keyed without the syntactic shape of the loop: a rewrite of the same loop stays the same finding
			c.Fail("C20.R1", l.fn, fmt.Sprintf("loop #%d terminates for every finite input", l.ord), l.pos, hit.reason)
		} else {
			c.OK("C20.R1", l.fn, detail+": "+hit.reason, l.pos, "")
		}
	}
	// unconditional self-recursion
	for _, p := range c.LibPkgs() {
		info := p.TypesInfo
		core.EachFunc(p, func(_ *ast.File, fd *ast.FuncDecl) {
			self := info.Defs[fd.Name]
			var selfCalls []*ast.CallExpr
			ast.Inspect(fd.Body, func(n ast.Node) bool {
				if _, isLit := n.(*ast.FuncLit); isLit {
					return false
				}
				if ce, ok := n.(*ast.CallExpr); ok {
					if fn := core.Callee(info, ce); fn != nil && types.Object(fn) == self {
						// method: same receiver object required
						if se, ok := ce.Fun.(*ast.SelectorExpr); ok && fd.Recv != nil && len(fd.Recv.List[0].Names) > 0 {
							if id, ok := ast.Unparen(se.X).(*ast.Ident); !ok || info.Uses[id] != info.Defs[fd.Recv.List[0].Names[0]] {
								return true
							}
						}
						selfCalls = append(selfCalls, ce)
					}
				}
				return true
			})
			if len(selfCalls) == 0 {
				return
			}
			cf := core.NewFuncCFG(fd.Body, info)
			// is there a path from entry to an exit that avoids every self call?
			blocked := map[int32]bool{}
			for _, sc := range selfCalls {
				if b, _ := cf.BlockOf(sc.Pos()); b != nil {
					blocked[b.Index] = true
				}
			}
			seen := map[int32]bool{}
			var st []int32
			escape := false
			if !blocked[0] {
				st = append(st, 0)
				seen[0] = true
			}
			for len(st) > 0 {
				b := cf.G.Blocks[st[len(st)-1]]
				st = st[:len(st)-1]
				if len(b.Succs) == 0 {
					escape = true
					break
				}
				for _, s := range b.Succs {
					if !seen[s.Index] && !blocked[s.Index] {
						seen[s.Index] = true
						st = append(st, s.Index)
					}
				}
			}
			c.Check(escape, "C20.R1", c.FuncName(p, fd), "recursion has a base case", fd.Pos(), "every path through the function calls the function itself on the same receiver: unbounded recursion (stack overflow)")
		})
	}
}

// ---------------------------------------------------------------------------
// R4 option switches

func checkOptionSwitches(c *core.Ctx) {
	for _, p := range c.LibPkgs() {
		info := p.TypesInfo
		core.EachFunc(p, func(_ *ast.File, fd *ast.FuncDecl) {
			// variadic ...interface{} parameter
			var argsObj types.Object
			if fd.Type.Params != nil {
				for _, f := range fd.Type.Params.List {
					if el, ok := f.Type.(*ast.Ellipsis); ok {
						if it, ok := el.Elt.(*ast.InterfaceType); ok && len(it.Methods.List) == 0 && len(f.Names) == 1 {
							argsObj = info.Defs[f.Names[0]]
						}
					}
				}
			}
			if argsObj == nil {
				return
			}
			fname := c.FuncName(p, fd)
			// forwards args... to another call?
			forwards := false
			ast.Inspect(fd.Body, func(n ast.Node) bool {
				if ce, ok := n.(*ast.CallExpr); ok && ce.Ellipsis.IsValid() && len(ce.Args) > 0 {
					if id, ok := ast.Unparen(ce.Args[len(ce.Args)-1]).(*ast.Ident); ok && info.Uses[id] == argsObj {
						forwards = true
					}
				}
				return true
			})
			ast.Inspect(fd.Body, func(n ast.Node) bool {
				rs, ok := n.(*ast.RangeStmt)
				if !ok {
					return true
				}
				if id, ok := ast.Unparen(rs.X).(*ast.Ident); !ok || info.Uses[id] != argsObj {
					return true
				}
				ast.Inspect(rs.Body, func(m ast.Node) bool {
					ts, ok := m.(*ast.TypeSwitchStmt)
					if !ok {
						return true
					}
					rejects := false
					for _, cs := range ts.Body.List {
						cc := cs.(*ast.CaseClause)
						if cc.List != nil {
							continue
						}
						ast.Inspect(cc, func(y ast.Node) bool {
							switch z := y.(type) {
							case *ast.CallExpr:
								if id, ok := z.Fun.(*ast.Ident); ok && id.Name == "panic" {
									rejects = true
								}
								// default: collect the option for a nested routine (args = append(args, arg))
								if id, ok := z.Fun.(*ast.Ident); ok && id.Name == "append" {
									rejects = true
								}
							case *ast.ReturnStmt:
								rejects = true
							}
							return true
						})
					}
					c.Check(rejects || forwards, "C20.R4", fname, "unknown options are rejected or forwarded", ts.Pos(),
						"the option switch has no default branch that panics or returns an error and the arguments are not forwarded: a mistyped or unsupported option (e.g. InSitu by value of another package, a bare number) is silently ignored")
					return false
				})
				return true
			})
		})
	}
}

// options collected in a []interface{} must be spread (xs...) when handed to a variadic option list
func checkOptionSpreading(c *core.Ctx) {
	for _, p := range c.LibPkgs() {
		info := p.TypesInfo
		core.EachFunc(p, func(_ *ast.File, fd *ast.FuncDecl) {
			fname := c.FuncName(p, fd)
			ast.Inspect(fd.Body, func(n ast.Node) bool {
				ce, ok := n.(*ast.CallExpr)
				if !ok || ce.Ellipsis.IsValid() || len(ce.Args) == 0 {
					return true
				}
				fn := core.Callee(info, ce)
				if fn == nil {
					return true
				}
				sig := fn.Type().(*types.Signature)
				if !sig.Variadic() {
					return true
				}
				last := sig.Params().At(sig.Params().Len() - 1).Type().(*types.Slice)
				if it, ok := last.Elem().Underlying().(*types.Interface); !ok || it.NumMethods() != 0 {
					return true
				}
				// arguments landing in the variadic part
				for k := sig.Params().Len() - 1; k < len(ce.Args); k++ {
					if tv, ok := info.Types[ce.Args[k]]; ok {
						if sl, ok := tv.Type.Underlying().(*types.Slice); ok {
							if it, ok := sl.Elem().Underlying().(*types.Interface); ok && it.NumMethods() == 0 {
								c.Fail("C20.R4", fname, "option list spread into "+fn.Name(), ce.Pos(),
									"a []interface{} of collected options is passed as ONE element of the callee's variadic option list (missing '...'): the callee sees a nested slice, matches no case and silently ignores every forwarded option")
							}
						}
					}
				}
				return true
			})
		})
	}
}

// ---------------------------------------------------------------------------
// R5 AD guards (SetVariable order, dyadic N mismatch)

func checkADGuards(c *core.Ctx) {
	pkg := c.Root
	info := pkg.TypesInfo
	for _, T := range magicTypes {
		fd := core.FindMethod(pkg, T, "SetVariable")
		cons := "(*" + T + ").SetVariable"
		if fd == nil {
			c.Unknown("C20.R5", cons, "present", token.NoPos, "not found")
			continue
		}
		f := newFnCtx(pkg, fd)
		cf := core.NewFuncCFG(fd.Body, info)
		var guard *ast.IfStmt
		ast.Inspect(fd.Body, func(n ast.Node) bool {
			if is, ok := n.(*ast.IfStmt); ok && guard == nil {
				s := f.norm(is.Cond)
				if s == "P2 > 2" || s == "P2 >= 3" || s == "2 < P2" {
					rejects := false
					for _, st := range is.Body.List {
						if rs, ok := st.(*ast.ReturnStmt); ok && len(rs.Results) == 1 {
							if id, ok := rs.Results[0].(*ast.Ident); !ok || id.Name != "nil" {
								rejects = true
							}
						}
						if es, ok := st.(*ast.ExprStmt); ok {
							if ce, ok := es.X.(*ast.CallExpr); ok && calleeName(ce) == "panic" {
								rejects = true
							}
						}
					}
					if rejects {
						guard = is
					}
				}
			}
			return true
		})
		c.Check(guard != nil, "C20.R5", cons, "order > 2 is rejected", fd.Pos(), "no 'if order > 2 { return error }' guard")
		if guard == nil {
			continue
		}
		// the guard's false edge dominates every state change (calls on the receiver, field stores)
		_, fe := cf.CondEdge(guard.Cond)
		bad := ""
		var badPos token.Pos
		for _, ce := range f.callsOnRecv() {
			b, _ := cf.BlockOf(ce.Pos())
			if fe == nil || b == nil || !cf.Dominates(fe, b) {
				bad = calleeName(ce)
				badPos = ce.Pos()
			}
		}
		for _, a := range f.accesses() {
			if a.write {
				b, _ := cf.BlockOf(a.pos)
				if fe == nil || b == nil || !cf.Dominates(fe, b) {
					bad = "store to " + a.field
					badPos = a.pos
				}
			}
		}
		c.Check(bad == "", "C20.R5", cons, "rejection precedes every state change", badPos,
			bad+" is reachable before the unsupported order is rejected: the error is returned but the receiver is left re-allocated/corrupted")
		// dyadic combinators: N mismatch panic dominates the loops
		for name, nops := range combinatorNames {
			if nops != 2 {
				continue
			}
			fd := core.FindMethod(pkg, T, name)
			cons := "(*" + T + ")." + name
			if fd == nil {
				continue
			}
			f := newFnCtx(pkg, fd)
			cf := core.NewFuncCFG(fd.Body, info)
			var guard *ast.IfStmt
			ast.Inspect(fd.Body, func(n ast.Node) bool {
				if is, ok := n.(*ast.IfStmt); ok && blockPanics(info, is.Body) {
					s := f.norm(is.Cond)
					if strings.Contains(s, "P0.GetN() != P1.GetN()") || strings.Contains(s, "P1.GetN() != P0.GetN()") {
						if strings.Contains(s, "P0.GetOrder() >= 1") && strings.Contains(s, "P1.GetOrder() >= 1") {
							guard = is
						}
					}
				}
				return true
			})
			if guard == nil {
				c.Fail("C20.R5", cons, "operands with different numbers of variables are rejected", fd.Pos(), "no panic guarded by a.GetOrder()>=1 && b.GetOrder()>=1 && a.GetN() != b.GetN()")
				continue
			}
			_, fe := cf.CondEdge(guard.Cond)
			bad := false
			ast.Inspect(fd.Body, func(n ast.Node) bool {
				if fs, ok := n.(*ast.ForStmt); ok {
					b, _ := cf.BlockOf(fs.Body.Pos())
					if b == nil {
						b, _ = cf.BlockOf(fs.Cond.Pos())
					}
					if fe == nil || b == nil || !cf.Dominates(fe, b) {
						bad = true
					}
				}
				return true
			})
			c.Check(!bad, "C20.R5", cons, "the N-mismatch panic dominates the derivative loops", guard.Pos(), "a derivative loop is reachable without passing the N-mismatch test (out-of-range reads of the shorter gradient)")
		}
	}
}

// SLICE/ConstSlice/MagicSlice: the requested window must be checked against the receiver's view
func checkSliceBounds(c *core.Ctx) {
	pkg := c.Root
	dense, sparse := matrixTypes(pkg)
	for _, T := range append(append([]string{}, dense...), sparse...) {
		for _, name := range []string{"SLICE", "ConstSlice", "MagicSlice"} {
			fd := core.FindMethod(pkg, T, name)
			if fd == nil || delegatesTo(fd, "SLICE") || delegatesTo(fd, "Slice") || delegatesTo(fd, "MagicSlice") {
				continue
			}
			cons := "(*" + T + ")." + name
			f := newFnCtx(pkg, fd)
			guarded := false
			ast.Inspect(fd.Body, func(n ast.Node) bool {
				if is, ok := n.(*ast.IfStmt); ok && blockPanics(pkg.TypesInfo, is.Body) {
					s := f.norm(is.Cond)
					if strings.Contains(s, "R.rows") && strings.Contains(s, "R.cols") {
						guarded = true
					}
				}
				return true
			})
			c.Check(guarded, "C20.R3", cons, "window inside the receiver's view", fd.Pos(),
				"the slice bounds (rfrom, rto, cfrom, cto) are not compared with the receiver's rows/cols: a window reaching beyond the view silently addresses the parent's (or neighbouring rows') storage")
		}
	}
}

// ---------------------------------------------------------------------------
// R2 dimension guards: every element access in a counted loop is bounded by the accessed container's own extent,
// given the extent equalities the guards establish on that path.

func extentOf(cont *sym.Term, pos, rank int) []*sym.Term {
	// a private copy (clone(X)) has the extents of X
	for {
		as := cont.Atoms()
		if len(as) == 1 && as[0].Kind == "clone" && len(as[0].Args) == 1 && cont.String() == as[0].Key() {
			cont = as[0].Args[0]
			continue
		}
		break
	}
	if rank == 1 {
		return []*sym.Term{sym.Fn("dim", cont)}
	}
	if pos == 0 {
		return []*sym.Term{sym.Fn("rows", cont)}
	}
	return []*sym.Term{sym.Fn("cols", cont)}
}

func checkDimensionGuards(c *core.Ctx) {
	pkg := c.Root
	info := pkg.TypesInfo
	nMethods := 0
	core.EachFunc(pkg, func(_ *ast.File, fd *ast.FuncDecl) {
		T := core.RecvTypeName(fd)
		if !strings.HasPrefix(T, "Dense") || strings.Contains(T, "Iterator") || !(strings.HasSuffix(T, "Vector") || strings.HasSuffix(T, "Matrix")) {
			return
		}
		// at least one container parameter, exported operation
		ncont := 0
		if fd.Type.Params != nil {
			for _, f := range fd.Type.Params.List {
				for range f.Names {
					if tv, ok := info.Types[f.Type]; ok {
						if n := namedOfType(tv.Type); strings.HasSuffix(n, "Vector") || strings.HasSuffix(n, "Matrix") {
							ncont++
						}
					}
				}
			}
		}
		if ncont == 0 || !ast.IsExported(fd.Name.Name) {
			return
		}
		switch fd.Name.Name {
		case "Jacobian", "Hessian", "AppendVector", "APPEND", "JointIterator", "ConstJointIterator", "JOINT_ITERATOR":
			return
		}
		cons := "(*" + T + ")." + fd.Name.Name
		paths, und := vn.Run(vn.Config{Pkg: pkg, TypeName: elemScalarType(T), Spec: scalarSpec, InlineOps: inlineOps, KernelMode: true}, fd)
		if und != nil {
			dimUndecided[fd.Name.Name]++
			return
		}
		nMethods++
		bad := ""
		var badPos token.Pos
		nacc := 0
		for _, p := range paths {
			if p.Panic {
				continue
			}
			// union-find over extent terms from the equalities that hold on this path
			parent := map[string]string{}
			var find func(s string) string
			find = func(s string) string {
				if p, ok := parent[s]; ok && p != s {
					r := find(p)
					parent[s] = r
					return r
				}
				return s
			}
			for _, cv := range p.Conds {
				if cv.C.Op == "eq" && cv.V && cv.C.B != nil {
					a, b := find(cv.C.A.String()), find(cv.C.B.String())
					if a != b {
						parent[a] = b
					}
				}
			}
			for _, ac := range p.Accesses {
				rank := len(ac.Idx)
				for pos, ix := range ac.Idx {
					// index must be a loop variable (plus a constant) of an enclosing loop
					var lc *vn.LoopCtx
					for i := range ac.Loops {
						if ix.DependsOn(sym.SymAtom(ac.Loops[i].Var)) {
							lc = &ac.Loops[i]
						}
					}
					if lc == nil {
						continue // constant index (e.g. AT(0) in an alias test guarded by n == 0 checks): not judged
					}
					nacc++
					hiIdx := sym.Subst(ix, map[*sym.Atom]*sym.Term{sym.SymAtom(lc.Var): lc.Hi})
					ext := extentOf(ac.Cont, pos, rank)[0]
					// hiIdx + 1 must equal the extent modulo the equalities (or be smaller by a constant)
					lim := sym.Add(hiIdx, sym.One())
					ok := false
					if find(lim.String()) == find(ext.String()) {
						ok = true
					} else if d, isC := sym.Sub(ext, lim).IsConst(); isC && d.Sign() >= 0 {
						ok = true
					} else {
						// try replacing extents in lim by class representatives: compare strings of all members
						for k := range parent {
							if find(k) == find(ext.String()) {
								if d, isC := sym.Sub(sym.ParseAtomString(k), lim).IsConst(); isC && d.Sign() >= 0 {
									ok = true
								}
							}
						}
					}
					if !ok && bad == "" {
						bad = fmt.Sprintf("index %s of %s runs up to %s but nothing on this path ties that bound to %s (path: %s)", ix, ac.Cont, hiIdx, ext, p.CondString())
						badPos = ac.Pos
					}
				}
			}
		}
		c.Check(bad == "", "C20.R2", cons, "every indexed extent is tied to the accessed container by a guard", badPos, bad)
		_ = nacc
	})
	c.Analysed["dimension_guard_methods"] = nMethods
	// methods the interpreter does not reach are a reviewed, bounded set: anything beyond it is a loss of coverage and fails
	reviewed := map[string]int{
		"AppendMagicVector": 2, // real dense vectors: appends through the generic interface, no indexed access of its own
		"JOINT_ITERATOR_":   2, // constructs an iterator, no indexed access
		"MDOTM":             2, // real dense matrices: scratch vectors taken from the receiver (r.tmp1[0:n]); the float/int instances are interpreted
		"MdotM":             2,
	}
	for k, v := range dimUndecided {
		c.Analysed["dimension_guard_uninterpreted_"+k] = v
		if v > reviewed[k] {
			c.Unknown("C20.R2", "dimension guards", "method "+k+" interpreted", token.NoPos,
				fmt.Sprintf("%d instances of %s left the interpreter's idiom set (reviewed: %d): their dimension guards are not checked", v, k, reviewed[k]))
		}
	}
}

var dimUndecided = map[string]int{}

// checkRawSubslices (C20.R3): an accessor that hands out a sub-slice of the receiver's raw storage (ConstRow of an
// untransposed matrix, ConstCol of a transposed one) has no per-element bounds check; its start offset therefore has to
// come from index() applied to the accessor's own argument (index() panics outside the view), or an explicit range test
// of that argument that panics has to dominate the slice expression. Computing the offset from the header fields gives
// the same address for valid arguments and silently reads the parent's storage for invalid ones.
func checkRawSubslices(c *core.Ctx) {
	pkg := c.Root
	info := pkg.TypesInfo
	n := 0
	core.EachFunc(pkg, func(_ *ast.File, fd *ast.FuncDecl) {
		if fd.Recv == nil || len(fd.Recv.List) == 0 || len(fd.Recv.List[0].Names) == 0 {
			return
		}
		T := core.RecvTypeName(fd)
		if !strings.HasPrefix(T, "Dense") || !strings.HasSuffix(T, "Matrix") {
			return
		}
		recv := info.Defs[fd.Recv.List[0].Names[0]]
		var params []types.Object
		for _, f := range fd.Type.Params.List {
			for _, nm := range f.Names {
				if o := info.Defs[nm]; o != nil {
					if b, ok := o.Type().Underlying().(*types.Basic); ok && b.Info()&types.IsInteger != 0 {
						params = append(params, o)
					}
				}
			}
		}
		if len(params) == 0 {
			return
		}
		var cf *core.FuncCFG
		ast.Inspect(fd.Body, func(x ast.Node) bool {
			se, ok := x.(*ast.SliceExpr)
			if !ok {
				return true
			}
			sel, ok := ast.Unparen(se.X).(*ast.SelectorExpr)
			if !ok || sel.Sel.Name != "values" {
				return true
			}
			if id, ok := ast.Unparen(sel.X).(*ast.Ident); !ok || info.Uses[id] != recv {
				return true
			}
			n++
			if cf == nil {
				cf = core.NewFuncCFG(fd.Body, info)
			}
			cons := c.FuncName(pkg, fd)
			// a dominating call recv.index(..param..), or a dominating panicking range test of a parameter
			guarded := false
			ast.Inspect(fd.Body, func(y ast.Node) bool {
				switch v := y.(type) {
				case *ast.CallExpr:
					s, ok := ast.Unparen(v.Fun).(*ast.SelectorExpr)
					if !ok || s.Sel.Name != "index" {
						return true
					}
					if id, ok := ast.Unparen(s.X).(*ast.Ident); !ok || info.Uses[id] != recv {
						return true
					}
					usesParam := false
					for _, a := range v.Args {
						ast.Inspect(a, func(z ast.Node) bool {
							if id, ok := z.(*ast.Ident); ok {
								for _, p := range params {
									if info.Uses[id] == p {
										usesParam = true
									}
								}
							}
							return true
						})
					}
					if usesParam && v.Pos() < se.Pos() && cf.NodeDominates(v.Pos(), se.Pos()) {
						guarded = true
					}
				case *ast.IfStmt:
					if blockPanics(info, v.Body) && v.Pos() < se.Pos() {
						s := exprStr(v.Cond)
						for _, p := range params {
							if strings.Contains(s, p.Name()+">=") || strings.Contains(s, p.Name()+" >=") {
								if cf.NodeDominates(v.Cond.Pos(), se.Pos()) {
									guarded = true
								}
							}
						}
					}
				}
				return true
			})
			c.Check(guarded, "C20.R3", cons, "raw storage sub-slice starts at a bounds-checked index", se.Pos(),
				"a sub-slice of the raw storage is returned whose start is not obtained from index() of the accessor's argument (nor preceded by a range test that panics): an out-of-range row/column of a sliced view silently yields the parent's elements")
			return true
		})
	})
	c.Analysed["raw_storage_subslices"] = n
}

// checkSvdScan (C20.R6): in the Golub-Kahan SVD driver a step on the active block B22 = B[p:e, p:e] makes progress
// only if no diagonal entry of the block other than the last is exactly zero; the scan that handles such entries
// (zeroRow) therefore has to range over exactly the rows p .. e-2 of the block that is handed to the step. The block
// is read off the Slice call whose result is passed to golubKahanSVDstep, the scanned index set off the loop header
// (upward or downward), both as linear forms in the integer variables of the function; a scan that starts one row late
// or stops one row early leaves a zero diagonal entry in place and the driver spins on a fixed point.
func checkSvdScan(c *core.Ctx) {
	c.Rule("C20.R6", "the zero-diagonal scan of the Golub-Kahan SVD driver covers rows p .. e-2 of the block B[p:e] handed to the step", 1)
	p := c.Pkg("algorithm/svd")
	cons := "algorithm/svd.golubKahanSVD"
	if p == nil {
		c.Unknown("C20.R6", cons, "package loaded", token.NoPos, "not loaded")
		return
	}
	fd := findFuncDecl(p, "golubKahanSVD")
	if fd == nil {
		c.Unknown("C20.R6", cons, "function found", token.NoPos, "not found")
		return
	}
	info := p.TypesInfo
	// linear forms over integer variables
	type lin map[string]int // variable name (by object id) -> coefficient; "" -> constant
	// locals defined exactly once by `x := <linear expression>` are inlined (`last := n-q-1; for k := p; k < last; k++`)
	defs := map[types.Object]ast.Expr{}
	ndef := map[types.Object]int{}
	ast.Inspect(fd.Body, func(x ast.Node) bool {
		if as, ok := x.(*ast.AssignStmt); ok && len(as.Lhs) == len(as.Rhs) {
			for i, l := range as.Lhs {
				if id, ok := l.(*ast.Ident); ok {
					o := info.Defs[id]
					if o == nil {
						o = info.Uses[id]
					}
					if o != nil {
						ndef[o]++
						defs[o] = as.Rhs[i]
					}
				}
			}
		}
		if inc, ok := x.(*ast.IncDecStmt); ok {
			if id, ok := inc.X.(*ast.Ident); ok {
				if o := info.Uses[id]; o != nil {
					ndef[o] += 2
				}
			}
		}
		return true
	})
	var linOf func(e ast.Expr) (lin, bool)
	depth := 0
	linOf = func(e ast.Expr) (lin, bool) {
		switch v := ast.Unparen(e).(type) {
		case *ast.Ident:
			if o := info.Uses[v]; o != nil {
				if d, ok := defs[o]; ok && ndef[o] == 1 && depth < 4 {
					if _, isCall := ast.Unparen(d).(*ast.CallExpr); !isCall {
						depth++
						r, ok := linOf(d)
						depth--
						if ok {
							return r, true
						}
					}
				}
				return lin{fmt.Sprintf("%s@%d", o.Name(), o.Pos()): 1}, true
			}
		case *ast.BasicLit:
			var x int
			if _, err := fmt.Sscanf(v.Value, "%d", &x); err == nil {
				return lin{"": x}, true
			}
		case *ast.BinaryExpr:
			a, ok1 := linOf(v.X)
			b, ok2 := linOf(v.Y)
			if ok1 && ok2 && (v.Op == token.ADD || v.Op == token.SUB) {
				r := lin{}
				for k, x := range a {
					r[k] += x
				}
				for k, x := range b {
					if v.Op == token.ADD {
						r[k] += x
					} else {
						r[k] -= x
					}
				}
				return r, true
			}
		}
		return nil, false
	}
	shift := func(a lin, d int) lin {
		r := lin{}
		for k, x := range a {
			r[k] = x
		}
		r[""] += d
		return r
	}
	same := func(a, b lin) bool {
		for k, x := range a {
			if b[k] != x {
				return false
			}
		}
		for k, x := range b {
			if a[k] != x {
				return false
			}
		}
		return true
	}
	var scan *ast.ForStmt
	var slice *ast.CallExpr
	ast.Inspect(fd.Body, func(x ast.Node) bool {
		switch v := x.(type) {
		case *ast.ForStmt:
			has := false
			ast.Inspect(v.Body, func(y ast.Node) bool {
				if ce, ok := y.(*ast.CallExpr); ok && calleeName(ce) == "zeroRow" {
					has = true
				}
				return true
			})
			// innermost loop containing zeroRow
			if has {
				scan = v
			}
		case *ast.CallExpr:
			if calleeName(v) == "golubKahanSVDstep" && len(v.Args) > 0 {
				// the block argument: a Slice call, directly or through a local defined by one
				arg := ast.Unparen(v.Args[0])
				if id, ok := arg.(*ast.Ident); ok {
					o := info.Uses[id]
					ast.Inspect(fd.Body, func(y ast.Node) bool {
						if as, ok := y.(*ast.AssignStmt); ok && len(as.Lhs) == 1 && len(as.Rhs) == 1 {
							if l, ok := as.Lhs[0].(*ast.Ident); ok && (info.Defs[l] == o || info.Uses[l] == o) {
								arg = ast.Unparen(as.Rhs[0])
							}
						}
						return true
					})
				}
				if ce, ok := arg.(*ast.CallExpr); ok && strings.HasSuffix(calleeName(ce), "Slice") && len(ce.Args) == 4 {
					slice = ce
				}
			}
		}
		return true
	})
	if scan == nil || slice == nil {
		c.Unknown("C20.R6", cons, "scan loop and step block found", fd.Pos(), "no loop calling zeroRow or no Slice handed to golubKahanSVDstep")
		return
	}
	blo, ok1 := linOf(slice.Args[0])
	bhi, ok2 := linOf(slice.Args[1])
	// scanned index set [lo, hi] inclusive
	var lo, hi lin
	okScan := false
	if as, ok := scan.Init.(*ast.AssignStmt); ok && len(as.Lhs) == 1 && len(as.Rhs) == 1 {
		if start, ok := linOf(as.Rhs[0]); ok {
			if be, ok := scan.Cond.(*ast.BinaryExpr); ok {
				if bound, ok := linOf(be.Y); ok {
					if inc, ok := scan.Post.(*ast.IncDecStmt); ok {
						switch {
						case inc.Tok == token.INC && be.Op == token.LSS:
							lo, hi, okScan = start, shift(bound, -1), true
						case inc.Tok == token.INC && be.Op == token.LEQ:
							lo, hi, okScan = start, bound, true
						case inc.Tok == token.DEC && be.Op == token.GTR:
							lo, hi, okScan = shift(bound, 1), start, true
						case inc.Tok == token.DEC && be.Op == token.GEQ:
							lo, hi, okScan = bound, start, true
						}
					}
				}
			}
		}
	}
	if !ok1 || !ok2 || !okScan {
		c.Unknown("C20.R6", cons, "bounds are linear in the integer variables", scan.Pos(), "the scan loop header or the Slice bounds are not of the counted linear form")
		return
	}
	checkSvdScanFrame(c, cons, info, scan)
	c.Check(same(lo, blo) && same(hi, shift(bhi, -2)), "C20.R6", cons, "scan covers rows p .. e-2 of the step block", scan.Pos(),
		fmt.Sprintf("the block handed to the step is B[%s:%s] but the zero-diagonal scan ranges over a different set of rows (header `%s; %s; %s`): a zero diagonal entry of the block that the scan skips stays in place, the step then changes nothing and the driver does not terminate",
			exprStr(slice.Args[0]), exprStr(slice.Args[1]), nodeStr(scan.Init), exprStr(scan.Cond), nodeStr(scan.Post)))
}

// checkSvdScanFrame: the row index found by the scan is an index into the matrix whose diagonal was tested; the
// routine that removes the zero has to be handed that same matrix (a slice of it has its own index origin: with the
// absolute index the routine works on the wrong row, nothing changes and the driver spins).
func checkSvdScanFrame(c *core.Ctx, cons string, info *types.Info, scan *ast.ForStmt) {
	ast.Inspect(scan.Body, func(n ast.Node) bool {
		is, ok := n.(*ast.IfStmt)
		if !ok {
			return true
		}
		var tested types.Object
		ast.Inspect(is.Cond, func(m ast.Node) bool {
			if ce, ok := m.(*ast.CallExpr); ok && len(ce.Args) == 2 {
				if sel, ok := ast.Unparen(ce.Fun).(*ast.SelectorExpr); ok && (sel.Sel.Name == "At" || sel.Sel.Name == "ConstAt" || sel.Sel.Name == "AT") {
					if id, ok := ast.Unparen(sel.X).(*ast.Ident); ok {
						tested = info.Uses[id]
					}
				}
			}
			return true
		})
		if tested == nil {
			return true
		}
		ast.Inspect(is.Body, func(m ast.Node) bool {
			ce, ok := m.(*ast.CallExpr)
			if !ok || calleeName(ce) != "zeroRow" || len(ce.Args) == 0 {
				return true
			}
			id, ok := ast.Unparen(ce.Args[0]).(*ast.Ident)
			c.Check(ok && info.Uses[id] == tested, "C20.R6", cons, "zeroRow works on the matrix whose diagonal was tested", ce.Pos(),
				"the scan finds a zero at an index of "+tested.Name()+" but zeroRow is handed "+exprStr(ce.Args[0])+": a slice has its own index origin, the zero is not removed and the driver does not terminate")
			return true
		})
		return true
	})
}

func nodeStr(n ast.Node) string {
	var b strings.Builder
	printer.Fprint(&b, token.NewFileSet(), n)
	return b.String()
}

// checkRetryShrinks (C20.R7): Rprop's inner retry loop (`for { try; if invalid { change step } else { break } }`) ends
// only if the step change on the invalid branch moves towards admissible points, i.e. shrinks the step. Which of the two
// user-supplied factors shrinks is fixed by the step-size update of the same function: the factor applied when the
// gradient changes sign (the decrease factor). The retry branch must apply that same factor; applying the increase
// factor makes the loop diverge.
func checkRetryShrinks(c *core.Ctx) {
	c.Rule("C20.R7", "the invalid-update branch of Rprop's retry loop multiplies the step by the decrease factor of the step-size update", 2)
	p := c.Pkg("algorithm/rprop")
	if p == nil {
		c.Unknown("C20.R7", "algorithm/rprop", "package loaded", token.NoPos, "not loaded")
		return
	}
	info := p.TypesInfo
	_ = info
	core.EachFunc(p, func(_ *ast.File, fd *ast.FuncDecl) {
		// the step-size update: if <same sign> { step[i] *= INC } else { step[i] *= DEC }
		mulFactor := func(b *ast.BlockStmt) string {
			f := ""
			if b == nil {
				return f
			}
			for _, st := range b.List {
				if as, ok := st.(*ast.AssignStmt); ok && as.Tok == token.MUL_ASSIGN && len(as.Lhs) == 1 {
					if _, isIdx := as.Lhs[0].(*ast.IndexExpr); isIdx {
						f = exprStr(as.Rhs[0])
					}
				}
			}
			return f
		}
		inc, dec := "", ""
		ast.Inspect(fd.Body, func(x ast.Node) bool {
			is, ok := x.(*ast.IfStmt)
			if !ok || is.Else == nil {
				return true
			}
			eb, ok := is.Else.(*ast.BlockStmt)
			if !ok {
				return true
			}
			a, b := mulFactor(is.Body), mulFactor(eb)
			if a != "" && b != "" && a != b && strings.Contains(exprStr(is.Cond), "<0") && strings.Contains(exprStr(is.Cond), ">0") {
				inc, dec = a, b
			}
			return true
		})
		if inc == "" {
			return
		}
		cons := c.FuncName(p, fd)
		// retry loops: for without condition
		n := 0
		ast.Inspect(fd.Body, func(x ast.Node) bool {
			fs, ok := x.(*ast.ForStmt)
			if !ok || fs.Cond != nil || fs.Init != nil {
				return true
			}
			ast.Inspect(fs.Body, func(y ast.Node) bool {
				is, ok := y.(*ast.IfStmt)
				if !ok || is.Else == nil {
					return true
				}
				// the branch that does not break changes the step
				hasBreak := func(b ast.Node) bool {
					r := false
					ast.Inspect(b, func(z ast.Node) bool {
						if bs, ok := z.(*ast.BranchStmt); ok && bs.Tok == token.BREAK {
							r = true
						}
						return true
					})
					return r
				}
				if hasBreak(is.Body) || !hasBreak(is.Else) {
					return true
				}
				f := ""
				ast.Inspect(is.Body, func(z ast.Node) bool {
					if as, ok := z.(*ast.AssignStmt); ok && as.Tok == token.MUL_ASSIGN && len(as.Lhs) == 1 {
						if _, isIdx := as.Lhs[0].(*ast.IndexExpr); isIdx {
							f = exprStr(as.Rhs[0])
						}
					}
					return true
				})
				if f == "" {
					return true
				}
				n++
				c.Check(f == dec, "C20.R7", cons, "retry branch applies the decrease factor", is.Pos(),
					"the invalid-update branch of the retry loop multiplies the step by "+f+" while the step-size update uses "+dec+" to decrease and "+inc+" to increase the step: the retry does not move towards admissible points and the loop need not end")
				return true
			})
			return true
		})
		if n == 0 {
			c.Unknown("C20.R7", cons, "retry loop found", fd.Pos(), "the function updates step sizes but no retry loop with a step change was recognised")
		}
	})
}

// checkAxisExtents (C20.R8): a name bound to one result of X.Dims() that is used as the bound of loops whose variables
// index X only on the *other* axis is a transposed extent: `n, _ := m.Dims(); for j := 0; j < n; j++ { m.At(i, j) }`
// walks the columns of row i up to the number of rows. For square matrices nothing shows; for rectangular ones entries
// are skipped or the access runs out of range. A name that bounds loops on both axes (algorithms on square matrices)
// is not reported.
func checkAxisExtents(c *core.Ctx) {
	c.Rule("C20.R8", "an extent taken from X.Dims() is not used exclusively to bound indices of X's other axis (algorithm and statistics packages)", 5)
	n := 0
	for _, p := range c.LibPkgs() {
		if p.PkgPath == core.RootPkg {
			continue
		}
		info := p.TypesInfo
		pkg := p
		core.EachFunc(p, func(_ *ast.File, fd *ast.FuncDecl) {
			type ext struct {
				cont types.Object
				axis int
			}
			extent := map[types.Object]ext{}
			ast.Inspect(fd.Body, func(x ast.Node) bool {
				as, ok := x.(*ast.AssignStmt)
				if !ok || len(as.Lhs) != 2 || len(as.Rhs) != 1 {
					return true
				}
				ce, ok := ast.Unparen(as.Rhs[0]).(*ast.CallExpr)
				if !ok || calleeName(ce) != "Dims" {
					return true
				}
				sel, ok := ast.Unparen(ce.Fun).(*ast.SelectorExpr)
				if !ok {
					return true
				}
				cid, ok := ast.Unparen(sel.X).(*ast.Ident)
				if !ok {
					return true
				}
				for k, l := range as.Lhs {
					if id, ok := l.(*ast.Ident); ok && id.Name != "_" {
						o := info.Defs[id]
						if o == nil {
							o = info.Uses[id]
						}
						if o != nil {
							extent[o] = ext{info.Uses[cid], k}
						}
					}
				}
				return true
			})
			if len(extent) == 0 {
				return
			}
			// loop variables bounded by an extent name
			boundOf := map[types.Object]types.Object{}
			ast.Inspect(fd.Body, func(x ast.Node) bool {
				fs, ok := x.(*ast.ForStmt)
				if !ok {
					return true
				}
				as, ok := fs.Init.(*ast.AssignStmt)
				if !ok || len(as.Lhs) != 1 {
					return true
				}
				id, ok := as.Lhs[0].(*ast.Ident)
				if !ok {
					return true
				}
				be, ok := fs.Cond.(*ast.BinaryExpr)
				if !ok {
					return true
				}
				if bid, ok := ast.Unparen(be.Y).(*ast.Ident); ok {
					if o := info.Uses[bid]; o != nil {
						if _, isExt := extent[o]; isExt {
							boundOf[info.Defs[id]] = o
						}
					}
				}
				return true
			})
			// uses of the loop variables as indices of the same container
			used := map[types.Object][2]int{} // extent name -> count of uses on axis 0 / axis 1
			ast.Inspect(fd.Body, func(x ast.Node) bool {
				ce, ok := x.(*ast.CallExpr)
				if !ok || len(ce.Args) != 2 {
					return true
				}
				nm := calleeName(ce)
				if nm != "At" && nm != "AT" && nm != "ConstAt" && nm != "MagicAt" && nm != "Float64At" {
					return true
				}
				sel, ok := ast.Unparen(ce.Fun).(*ast.SelectorExpr)
				if !ok {
					return true
				}
				cid, ok := ast.Unparen(sel.X).(*ast.Ident)
				if !ok {
					return true
				}
				for axis, a := range ce.Args {
					// any bounded loop variable inside the index expression counts (p[j], k+1, n-i-1)
					ast.Inspect(a, func(z ast.Node) bool {
						if id, ok := z.(*ast.Ident); ok {
							if e, ok := boundOf[info.Uses[id]]; ok && extent[e].cont == info.Uses[cid] {
								u := used[e]
								u[axis]++
								used[e] = u
							}
						}
						return true
					})
				}
				return true
			})
			for e, u := range used {
				ax := extent[e].axis
				n++
				bad := u[ax] == 0 && u[1-ax] > 0
				c.Check(!bad, "C20.R8", c.FuncName(pkg, fd), "extent "+e.Name()+" bounds indices of its own axis", e.Pos(),
					fmt.Sprintf("%s is result %d of Dims() but bounds only loops whose variables index axis %d of the same matrix: the loop walks one axis up to the extent of the other", e.Name(), ax, 1-ax))
			}
		})
	}
	c.Analysed["dims_extents_checked"] = n
}
