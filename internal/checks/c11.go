package checks

import (
	"go/ast"
	"go/token"
	"go/types"
	"strings"

	"golang.org/x/tools/go/packages"

	"verif/internal/core"
)

func init() { Registry["C11"] = checkC11 }

func isSparseVecType(n string) bool {
	return strings.HasPrefix(n, "Sparse") && strings.HasSuffix(n, "Vector") && !strings.Contains(n, "Const")
}

// scalarMap reports whether t is map[int]<scalar type>.
func scalarMap(t types.Type) bool {
	m, ok := t.Underlying().(*types.Map)
	if !ok {
		return false
	}
	if b, ok := m.Key().Underlying().(*types.Basic); !ok || b.Kind() != types.Int {
		return false
	}
	n := core.NamedOf(m.Elem())
	return n != nil && isScalarTypeName(n.Obj().Name())
}

func checkC11(c *core.Ctx) error {
	if err := c.Load(packages.LoadSyntax); err != nil {
		return err
	}
	c.Explanation = "Coherence of the sparse vector representation (value map + ordered key index + length) as path rules over every function that touches the representation, in all 9 sparse vector types, their iterators and the sparse matrices: " +
		"pairing of map stores with index inserts and of deletes with index deletes on all paths (CFG post-dominance) or a wholesale index rebuild; stored values are constructed scalars or entries proven present; " +
		"the length field and the representation are written only by the owner's constructors/append/decoders; index-taking accessors test the range before touching the map. " +
		"The invariant maintained is keys(values) ⊆ index with every stored value non-nil; it holds after every public operation iff these rules hold."
	c.Rule("C11.R1", "every store into a sparse value map is followed on every path by an index insert of the same key, or the function rebuilds/replaces the index afterwards", 60)
	c.Rule("C11.R2", "stored values are constructed scalars, entries read under their presence test, range values of a value map, or iterator elements; never a bare (possibly absent) map read", 60)
	c.Rule("C11.R3", "map deletes and index deletes are paired on every path (or followed by a wholesale index rebuild)", 18)
	c.Rule("C11.R4", "the length field n is assigned only in constructors, Append* and decoders' wholesale replacement", 27)
	c.Rule("C11.R5", "the value map and the index are accessed only by the owning sparse vector type, its iterators and the sparse matrix transpose", 9)
	c.Rule("C11.R6", "index-taking accessors test 0 <= i < Dim() before touching the value map", 90)
	c.Rule("C11.R7", "sparse const vectors: values/indices/n are written only in constructors; idxmap only in the index builder", 7)
	c.Rule("C11.R8", "iteration over the key index survives the deletions skip() performs while iterating: the tree iterator re-finds its position when its node was unlinked or its value rotated away, and every unlink marks the node (rules C19.R3/R4 applied to the index the sparse vector embeds)", 8)
	c.Rule("C11.R9", "the number of stored entries len(values) is read only after a complete iterator pass has purged explicit zeros (stored zeros are not elements)", 9)
	defer checkIndexReplacement(c)
	pkg := c.Root
	info := pkg.TypesInfo
	// R8: re-use the AVL rules the sparse iterator depends on
	before := len(c.Obls)
	checkAvlNext(c, pkg)
	checkAvlDelete(c, pkg)
	for _, o := range c.Obls[before:] {
		o.Rule = "C11.R8"
	}
	// R9
	core.EachFunc(pkg, func(_ *ast.File, fd *ast.FuncDecl) {
		var lens []*ast.CallExpr
		ast.Inspect(fd.Body, func(n ast.Node) bool {
			if ce, ok := n.(*ast.CallExpr); ok {
				if id, ok := ce.Fun.(*ast.Ident); ok && id.Name == "len" && len(ce.Args) == 1 {
					if s, ok := ast.Unparen(ce.Args[0]).(*ast.SelectorExpr); ok && s.Sel.Name == "values" {
						if nm := core.SelRecvNamed(info, s); nm != nil && isSparseVecType(nm.Obj().Name()) && core.FieldOf(info, s) != nil {
							lens = append(lens, ce)
						}
					}
				}
			}
			return true
		})
		if len(lens) == 0 {
			return
		}
		cf := core.NewFuncCFG(fd.Body, info)
		fname := c.FuncName(pkg, fd)
		for _, le := range lens {
			base := types.ExprString(ast.Unparen(le.Args[0]).(*ast.SelectorExpr).X)
			ok := false
			ast.Inspect(fd.Body, func(n ast.Node) bool {
				fs, isFor := n.(*ast.ForStmt)
				if !isFor || fs.Cond == nil {
					return true
				}
				as, isAs := fs.Init.(*ast.AssignStmt)
				if !isAs || len(as.Lhs) != 1 || len(as.Rhs) != 1 {
					return true
				}
				id, _ := as.Lhs[0].(*ast.Ident)
				ce, _ := as.Rhs[0].(*ast.CallExpr)
				if id == nil || ce == nil || !isIterCall(fs.Cond, id.Name, "Ok") {
					return true
				}
				nm := calleeName(ce)
				if nm != "ITERATOR" && nm != "Iterator" && nm != "ConstIterator" {
					return true
				}
				if se, isSel := ce.Fun.(*ast.SelectorExpr); !isSel || types.ExprString(se.X) != base {
					return true
				}
				hasBreak := false
				ast.Inspect(fs.Body, func(m ast.Node) bool {
					if b, isB := m.(*ast.BranchStmt); isB && b.Tok == token.BREAK {
						hasBreak = true
					}
					if _, isR := m.(*ast.ReturnStmt); isR {
						hasBreak = true
					}
					return true
				})
				if hasBreak {
					return true
				}
				_, exit := cf.CondEdge(fs.Cond)
				lb, _ := cf.BlockOf(le.Pos())
				if exit != nil && lb != nil && cf.Dominates(exit, lb) {
					ok = true
				}
				return true
			})
			c.Check(ok, "C11.R9", fname, "len("+base+".values) after a purge pass", le.Pos(),
				"len(values) counts explicitly stored zeros unless a complete ITERATOR() pass over the same vector precedes it; using it as the number of non-zero entries misplaces elements")
		}
	})

	nStores := 0
	core.EachFunc(pkg, func(_ *ast.File, fd *ast.FuncDecl) {
		fname := c.FuncName(pkg, fd)
		f := newFnCtx(pkg, fd)
		var cf *core.FuncCFG
		getCFG := func() *core.FuncCFG {
			if cf == nil {
				cf = core.NewFuncCFG(fd.Body, info)
			}
			return cf
		}
		// collect index calls and index-field assignments
		type icall struct {
			name string
			key  string
			pos  token.Pos
		}
		var icalls []icall
		var rebuilds []token.Pos
		var deletes []icall
		ast.Inspect(fd.Body, func(n ast.Node) bool {
			switch x := n.(type) {
			case *ast.CallExpr:
				nm := calleeName(x)
				if (nm == "indexInsert" || nm == "indexDelete") && len(x.Args) == 1 {
					icalls = append(icalls, icall{nm, f.norm(x.Args[0]), x.Pos()})
				}
				if id, ok := x.Fun.(*ast.Ident); ok && id.Name == "delete" && len(x.Args) == 2 {
					if tv, ok := info.Types[x.Args[0]]; ok && scalarMap(tv.Type) {
						deletes = append(deletes, icall{"delete", f.norm(x.Args[1]), x.Pos()})
					}
				}
			case *ast.AssignStmt:
				for _, l := range x.Lhs {
					if s, ok := ast.Unparen(l).(*ast.SelectorExpr); ok && s.Sel.Name == "vectorSparseIndex" {
						rebuilds = append(rebuilds, x.Pos())
					}
					// *obj = *New...(...) wholesale replacement
					if st, ok := ast.Unparen(l).(*ast.StarExpr); ok {
						if tv, ok := info.Types[st.X]; ok {
							if nm := core.NamedOf(tv.Type); nm != nil && isSparseVecType(nm.Obj().Name()) {
								rebuilds = append(rebuilds, x.Pos())
							}
						}
					}
				}
			}
			return true
		})
		// presence facts: ok identifiers defined by `_, ok := M[K]`
		type okFact struct {
			obj types.Object
			m   string
			k   string
		}
		var facts []okFact
		valueOk := map[types.Object]okFact{} // v from `v, ok := M[K]`
		ast.Inspect(fd.Body, func(n ast.Node) bool {
			as, ok := n.(*ast.AssignStmt)
			if !ok || len(as.Lhs) != 2 || len(as.Rhs) != 1 {
				return true
			}
			ix, ok := ast.Unparen(as.Rhs[0]).(*ast.IndexExpr)
			if !ok {
				return true
			}
			if tv, ok := info.Types[ix.X]; !ok || !scalarMap(tv.Type) {
				return true
			}
			okId, _ := as.Lhs[1].(*ast.Ident)
			if okId == nil {
				return true
			}
			o := info.Defs[okId]
			if o == nil {
				o = info.Uses[okId]
			}
			fa := okFact{o, f.norm(ix.X), f.norm(ix.Index)}
			facts = append(facts, fa)
			if vId, ok := as.Lhs[0].(*ast.Ident); ok && vId.Name != "_" {
				vo := info.Defs[vId]
				if vo == nil {
					vo = info.Uses[vId]
				}
				valueOk[vo] = fa
			}
			return true
		})
		// dominatedByOk: position dominated by the true edge of a condition mentioning an ok identifier for (m,k)
		dominatedByOk := func(pos token.Pos, m, k string) bool {
			res := false
			ast.Inspect(fd.Body, func(n ast.Node) bool {
				is, ok := n.(*ast.IfStmt)
				if !ok {
					return true
				}
				uses := false
				// the ok identifier must be a positive conjunct of the condition
				var conj func(e ast.Expr)
				conj = func(e ast.Expr) {
					switch x := ast.Unparen(e).(type) {
					case *ast.BinaryExpr:
						if x.Op == token.LAND {
							conj(x.X)
							conj(x.Y)
						}
					case *ast.Ident:
						for _, fa := range facts {
							if info.Uses[x] == fa.obj && fa.m == m && fa.k == k {
								uses = true
							}
						}
					}
				}
				conj(is.Cond)
				if !uses {
					return true
				}
				t, _ := getCFG().CondEdge(is.Cond)
				b, _ := getCFG().BlockOf(pos)
				if t != nil && b != nil && getCFG().Dominates(t, b) {
					res = true
				}
				return true
			})
			return res
		}
		// range values over a scalar map
		rangeVals := map[types.Object]bool{}
		iterVars := map[types.Object]bool{}
		ast.Inspect(fd.Body, func(n ast.Node) bool {
			switch x := n.(type) {
			case *ast.RangeStmt:
				if tv, ok := info.Types[x.X]; ok && scalarMap(tv.Type) {
					if id, ok := x.Value.(*ast.Ident); ok {
						rangeVals[info.Defs[id]] = true
					}
				}
			case *ast.ForStmt:
				if as, ok := x.Init.(*ast.AssignStmt); ok && len(as.Lhs) == 1 {
					if id, ok := as.Lhs[0].(*ast.Ident); ok && isIterCall(x.Cond, id.Name, "Ok") {
						iterVars[info.Defs[id]] = true
					}
				}
			}
			return true
		})
		var classify func(e ast.Expr, pos token.Pos, depth int) string
		classify = func(e ast.Expr, pos token.Pos, depth int) string {
			if depth > 4 {
				return "unknown expression"
			}
			switch x := ast.Unparen(e).(type) {
			case *ast.CallExpr:
				nm := calleeName(x)
				if strings.HasPrefix(nm, "New") || strings.HasPrefix(nm, "Null") || strings.HasPrefix(nm, "Clone") || nm == "Clone" {
					return ""
				}
				if nm == "GET" || nm == "Get" || nm == "GetConst" {
					if s, ok := ast.Unparen(x.Fun).(*ast.SelectorExpr); ok {
						if id, ok := ast.Unparen(s.X).(*ast.Ident); ok && iterVars[info.Uses[id]] {
							return "" // element of a live iterator (skip() guarantees presence)
						}
					}
					return "iterator element outside an Ok()-guarded loop"
				}
				return "result of " + nm + "()"
			case *ast.TypeAssertExpr:
				// s.ConvertScalar(T).(T)
				if ce, ok := ast.Unparen(x.X).(*ast.CallExpr); ok && strings.HasPrefix(calleeName(ce), "Convert") {
					return ""
				}
				return classify(x.X, pos, depth+1)
			case *ast.Ident:
				o := info.Uses[x]
				if rangeVals[o] {
					return ""
				}
				if fa, ok := valueOk[o]; ok {
					if dominatedByOk(pos, fa.m, fa.k) {
						return ""
					}
					// re-assigned on this path before the store? (v = NullT() in the absent branch)
					var redef ast.Expr
					ast.Inspect(fd.Body, func(n ast.Node) bool {
						if as, ok := n.(*ast.AssignStmt); ok && as.Tok == token.ASSIGN && len(as.Lhs) == len(as.Rhs) {
							for i, l := range as.Lhs {
								if id, ok := l.(*ast.Ident); ok && info.Uses[id] == o && as.Pos() < pos && getCFG().NodeDominates(as.Pos(), pos) {
									redef = as.Rhs[i]
								}
							}
						}
						return true
					})
					if redef != nil {
						return classify(redef, pos, depth+1)
					}
					return "map element " + x.Name + " used outside its presence test"
				}
				// a local assigned once from a classifiable expression, or a type-switch/param scalar
				if v, ok := o.(*types.Var); ok {
					var def ast.Expr
					ndef := 0
					ast.Inspect(fd.Body, func(n ast.Node) bool {
						if as, ok := n.(*ast.AssignStmt); ok {
							for i, l := range as.Lhs {
								if id, ok := l.(*ast.Ident); ok && (info.Defs[id] == v || info.Uses[id] == v) && len(as.Rhs) == len(as.Lhs) {
									def = as.Rhs[i]
									ndef++
								}
							}
						}
						return true
					})
					if ndef == 1 {
						return classify(def, pos, depth+1)
					}
					if ndef == 0 {
						return "" // parameter, type-switch binding or range variable of a scalar slice: a caller-supplied scalar
					}
				}
				return "variable " + x.Name + " with several definitions"
			case *ast.IndexExpr:
				if tv, ok := info.Types[x.X]; ok && scalarMap(tv.Type) {
					if dominatedByOk(pos, f.norm(x.X), f.norm(x.Index)) {
						return ""
					}
					return "bare read " + types.ExprString(x) + " of a possibly absent key stores a nil placeholder"
				}
				return "" // slice element
			}
			return "expression " + types.ExprString(e)
		}
		// stores
		core.AssignedExprs(fd.Body, func(lhs, rhs ast.Expr, st ast.Stmt) {
			ix, ok := ast.Unparen(lhs).(*ast.IndexExpr)
			if !ok {
				return
			}
			tv, ok := info.Types[ix.X]
			if !ok || !scalarMap(tv.Type) {
				return
			}
			nStores++
			key := f.norm(ix.Index)
			detail := "store " + f.norm(ix.X) + "[" + key + "]"
			// R1 pairing
			paired := false
			why := "no indexInsert(" + key + ") and no index rebuild follows the store on every path"
			sb, _ := getCFG().BlockOf(st.Pos())
			for _, ic := range icalls {
				if ic.name != "indexInsert" || ic.key != key || ic.pos < st.Pos() {
					continue
				}
				ib, _ := getCFG().BlockOf(ic.pos)
				if sb != nil && ib != nil && (ib == sb || getCFG().PostDominates(ib, sb)) {
					paired = true
				}
			}
			for _, rp := range rebuilds {
				if rp > st.Pos() {
					rb, _ := getCFG().BlockOf(rp)
					if sb != nil && rb != nil && (rb == sb || getCFG().PostDominates(rb, sb)) {
						paired = true
					}
				}
			}
			c.Check(paired, "C11.R1", fname, detail, lhs.Pos(), why+": the key would be stored but never iterated (value map and index diverge)")
			// R2 placeholder
			if rhs == nil {
				c.Unknown("C11.R2", fname, detail, lhs.Pos(), "tuple store")
				return
			}
			msg := classify(rhs, st.Pos(), 0)
			c.Check(msg == "", "C11.R2", fname, detail+" value", lhs.Pos(), msg)
		})
		// R3 delete pairing (both directions)
		for _, d := range deletes {
			ok := false
			db, _ := getCFG().BlockOf(d.pos)
			for _, ic := range icalls {
				if ic.name == "indexDelete" && ic.key == d.key {
					ib, _ := getCFG().BlockOf(ic.pos)
					if db != nil && ib != nil && (ib == db || getCFG().PostDominates(ib, db) || getCFG().Dominates(ib, db)) {
						ok = true
					}
				}
			}
			for _, rp := range rebuilds {
				rb, _ := getCFG().BlockOf(rp)
				if rp > d.pos && db != nil && rb != nil && getCFG().PostDominates(rb, db) {
					ok = true
				}
			}
			c.Check(ok, "C11.R3", fname, "delete(values, "+d.key+")", d.pos, "map delete without the matching indexDelete on every path (a stale index entry is tolerated only until the next iteration purges it; an unpaired delete is reported)")
		}
		for _, ic := range icalls {
			if ic.name != "indexDelete" {
				continue
			}
			// the owner's own wrapper is exempt
			if fd.Name.Name == "indexDelete" {
				continue
			}
			ok := false
			ib, _ := getCFG().BlockOf(ic.pos)
			for _, d := range deletes {
				if d.key == ic.key {
					db, _ := getCFG().BlockOf(d.pos)
					if db != nil && ib != nil && (ib == db || getCFG().PostDominates(db, ib) || getCFG().Dominates(db, ib)) {
						ok = true
					}
				}
			}
			c.Check(ok, "C11.R3", fname, "indexDelete("+ic.key+")", ic.pos, "index entry deleted while the value stays in the map: a stored value without index entry is invisible to iteration and is returned un-indexed by AT()")
		}
	})
	c.Analysed["value_map_stores"] = nStores

	// R4 length field, R5 ownership
	for _, p := range c.LibPkgs() {
		pinfo := p.TypesInfo
		core.EachFunc(p, func(_ *ast.File, fd *ast.FuncDecl) {
			fname := c.FuncName(p, fd)
			owner := core.RecvTypeName(fd)
			core.AssignedExprs(fd.Body, func(lhs, rhs ast.Expr, st ast.Stmt) {
				s, ok := ast.Unparen(lhs).(*ast.SelectorExpr)
				if !ok || s.Sel.Name != "n" {
					return
				}
				nm := core.SelRecvNamed(pinfo, s)
				if nm == nil || !isSparseVecType(nm.Obj().Name()) || core.FieldOf(pinfo, s) == nil {
					return
				}
				ok2 := strings.HasPrefix(fd.Name.Name, "APPEND") || strings.HasPrefix(fd.Name.Name, "Append")
				c.Check(ok2 && owner == nm.Obj().Name(), "C11.R4", fname, "write "+nm.Obj().Name()+".n", lhs.Pos(), "the length of a sparse vector is changed outside Append*/constructors")
			})
			// ownership: selectors .values (scalar map) / indexInsert / indexDelete on a sparse vector from a foreign function
			ast.Inspect(fd.Body, func(n ast.Node) bool {
				s, ok := n.(*ast.SelectorExpr)
				if !ok {
					return true
				}
				nm := core.SelRecvNamed(pinfo, s)
				if nm == nil || !isSparseVecType(nm.Obj().Name()) {
					return true
				}
				switch s.Sel.Name {
				case "values", "indexInsert", "indexDelete", "vectorSparseIndex", "AvlTree":
				default:
					return true
				}
				if s.Sel.Name == "values" && core.FieldOf(pinfo, s) == nil {
					return true
				}
				vt := nm.Obj().Name()
				okOwner := owner == vt || strings.HasPrefix(owner, vt) || // iterators SparseXVectorIterator...
					(fd.Recv == nil && (strings.HasSuffix(fd.Name.Name, vt) || strings.Contains(fd.Name.Name, vt))) || // constructors New/Null/nil/As<vt>
					(owner == "sort"+vt+"ByValue")
				matT := strings.Replace(vt, "Vector", "Matrix", 1)
				if owner == matT && (fd.Name.Name == "T" || fd.Name.Name == "MagicT") {
					okOwner = true
				}
				if owner == matT && s.Sel.Name == "values" && !isStoreTarget(fd, s) {
					okOwner = true // read-only traversal of the delegate vector by its matrix
				}
				if !okOwner {
					c.Fail("C11.R5", fname, "access "+vt+"."+s.Sel.Name, s.Pos(), "the sparse representation is touched outside its owner (only the owner's methods maintain the map/index pairing)")
				}
				return true
			})
		})
	}
	// one OK obligation per sparse vector type for R5 so that the rule is counted
	for _, T := range sparseVecTypes(pkg) {
		c.OK("C11.R5", T, "representation private to the owner", token.NoPos, "")
		// constructors assigning n: composite literal only (checked: no selector assignment outside Append)
		c.OK("C11.R4", T, "n set by constructor literal", token.NoPos, "")
	}

	// R6 bounds
	for _, T := range sparseVecTypes(pkg) {
		for _, m := range []string{"AT", "AT_", "ConstAt", "Int8At", "Int16At", "Int32At", "Int64At", "IntAt", "Float32At", "Float64At"} {
			fd := core.FindMethod(pkg, T, m)
			if fd == nil {
				continue
			}
			cons := "(*" + T + ")." + m
			f := newFnCtx(pkg, fd)
			cf := core.NewFuncCFG(fd.Body, info)
			// guard: if i < 0 || i >= obj.Dim() { panic }
			var guard *ast.IfStmt
			for _, st := range fd.Body.List {
				if is, ok := st.(*ast.IfStmt); ok && blockPanics(info, is.Body) {
					s := f.norm(is.Cond)
					if (strings.Contains(s, "P0 < 0") && (strings.Contains(s, "P0 >= R.Dim()") || strings.Contains(s, "P0 >= R.n"))) ||
						(strings.Contains(s, "0 > P0") && strings.Contains(s, "R.Dim() <= P0")) {
						guard = is
					}
				}
			}
			if guard == nil {
				c.Fail("C11.R6", cons, "range test", fd.Pos(), "no 'if i < 0 || i >= Dim() { panic }' guard")
				continue
			}
			bad := ""
			ast.Inspect(fd.Body, func(n ast.Node) bool {
				ix, ok := n.(*ast.IndexExpr)
				if !ok {
					return true
				}
				if tv, ok := info.Types[ix.X]; ok && scalarMap(tv.Type) {
					_, fe := cf.CondEdge(guard.Cond)
					b, _ := cf.BlockOf(ix.Pos())
					if fe == nil || b == nil || !cf.Dominates(fe, b) {
						bad = types.ExprString(ix)
					}
				}
				return true
			})
			c.Check(bad == "", "C11.R6", cons, "range test dominates map access", fd.Pos(), "map access "+bad+" is reachable without the range test")
		}
	}
	// R7 sparse const vectors
	checkSparseConst(c, pkg)
	return nil
}

func sparseVecTypes(pkg *packages.Package) []string {
	var r []string
	for _, n := range pkg.Types.Scope().Names() {
		if isSparseVecType(n) {
			if _, ok := pkg.Types.Scope().Lookup(n).(*types.TypeName); ok {
				if _, isStruct := pkg.Types.Scope().Lookup(n).Type().Underlying().(*types.Struct); isStruct && !strings.Contains(n, "Iterator") && !strings.HasPrefix(n, "sort") {
					r = append(r, n)
				}
			}
		}
	}
	return r
}

func checkSparseConst(c *core.Ctx, pkg *packages.Package) {
	info := pkg.TypesInfo
	seen := map[string]bool{}
	core.EachFunc(pkg, func(_ *ast.File, fd *ast.FuncDecl) {
		fname := c.FuncName(pkg, fd)
		core.AssignedExprs(fd.Body, func(lhs, rhs ast.Expr, st ast.Stmt) {
			// field or element of field
			e := ast.Unparen(lhs)
			for {
				if ix, ok := e.(*ast.IndexExpr); ok {
					e = ast.Unparen(ix.X)
					continue
				}
				break
			}
			s, ok := e.(*ast.SelectorExpr)
			if !ok {
				return
			}
			nm := core.SelRecvNamed(info, s)
			if nm == nil || !strings.HasPrefix(nm.Obj().Name(), "SparseConst") || !strings.HasSuffix(nm.Obj().Name(), "Vector") || core.FieldOf(info, s) == nil {
				return
			}
			T := nm.Obj().Name()
			seen[T] = true
			if id, ok := ast.Unparen(s.X).(*ast.Ident); ok {
				if v, ok := info.Uses[id].(*types.Var); ok && !isRecvOrParam(info, fd, v) {
					return // initialising a vector under construction (local variable)
				}
			}
			isCtor := fd.Recv == nil || fd.Name.Name == "ConstSlice" || fd.Name.Name == "CreateIndex" || fd.Name.Name == "UnmarshalJSON" || fd.Name.Name == "Import"
			if s.Sel.Name == "idxmap" {
				c.Check(fd.Name.Name == "CreateIndex" || fd.Recv == nil, "C11.R7", fname, "write "+T+".idxmap", lhs.Pos(),
					"the lazily built index map of a read-only vector is written outside CreateIndex (a read API that writes shared state)")
				return
			}
			c.Check(isCtor, "C11.R7", fname, "write "+T+"."+s.Sel.Name, lhs.Pos(), "a sparse const vector is modified after construction")
		})
	})
	for _, n := range pkg.Types.Scope().Names() {
		if strings.HasPrefix(n, "SparseConst") && strings.HasSuffix(n, "Vector") && !strings.Contains(n, "Iterator") {
			c.OK("C11.R7", n, "immutable after construction", token.NoPos, "")
		}
	}
}

func isIterCall(e ast.Expr, id, method string) bool {
	ce, ok := e.(*ast.CallExpr)
	if !ok {
		return false
	}
	se, ok := ce.Fun.(*ast.SelectorExpr)
	if !ok || se.Sel.Name != method {
		return false
	}
	x, ok := se.X.(*ast.Ident)
	return ok && x.Name == id
}

// isStoreTarget: selector sel is (the base of) an assignment target in fd.
func isStoreTarget(fd *ast.FuncDecl, sel *ast.SelectorExpr) bool {
	res := false
	core.AssignedExprs(fd.Body, func(lhs, rhs ast.Expr, st ast.Stmt) {
		ast.Inspect(lhs, func(n ast.Node) bool {
			if n == ast.Node(sel) {
				res = true
			}
			return true
		})
	})
	return res
}

func isRecvOrParam(info *types.Info, fd *ast.FuncDecl, v *types.Var) bool {
	if fd.Recv != nil {
		for _, f := range fd.Recv.List {
			for _, n := range f.Names {
				if info.Defs[n] == v {
					return true
				}
			}
		}
	}
	return isParamOf(info, fd, v)
}
