package checks

import (
	"go/ast"
	"go/token"
	"go/types"
	"strings"

	"verif/internal/core"
)

// C18.R16 — presence scans of encoders. An encoder that omits a payload field when "all entries are zero" decides
// that with a scan: nested loops that set a boolean flag under a condition. The condition has to look at the entry
// addressed by all enclosing loop variables; a scan whose condition ignores one of its loop variables inspects only a
// part of the payload (e.g. the diagonal of the Hessian) and the field is dropped although it holds non-zero entries.
func c18PresenceScans(c *core.Ctx) {
	c.Rule("C18.R16", "presence scans in encoders (a boolean flag set inside loops that decides whether a payload field is written): the tested condition reads every enclosing loop variable", 4)
	for _, p := range c.LibPkgs() {
		info := p.TypesInfo
		pkg := p
		core.EachFunc(p, func(_ *ast.File, fd *ast.FuncDecl) {
			nm := fd.Name.Name
			if fd.Recv == nil || !(nm == "MarshalJSON" || strings.HasPrefix(nm, "Export")) {
				return
			}
			cons := c.FuncName(pkg, fd)
			var stack []ast.Node
			ast.Inspect(fd.Body, func(n ast.Node) bool {
				if n == nil {
					stack = stack[:len(stack)-1]
					return true
				}
				stack = append(stack, n)
				as, ok := n.(*ast.AssignStmt)
				if !ok || as.Tok != token.ASSIGN || len(as.Lhs) != 1 || len(as.Rhs) != 1 {
					return true
				}
				id, ok := ast.Unparen(as.Lhs[0]).(*ast.Ident)
				if !ok {
					return true
				}
				v, ok := info.Uses[id].(*types.Var)
				if !ok || v.Parent() == nil || v.Parent() == pkg.Types.Scope() {
					return true
				}
				if b, ok := v.Type().Underlying().(*types.Basic); !ok || b.Kind() != types.Bool {
					return true
				}
				if t, ok := ast.Unparen(as.Rhs[0]).(*ast.Ident); !ok || t.Name != "true" {
					return true
				}
				// enclosing loops and the innermost if between the innermost loop and the assignment
				var loops []*ast.ForStmt
				var cond *ast.IfStmt
				for _, s := range stack {
					switch x := s.(type) {
					case *ast.ForStmt:
						loops = append(loops, x)
						cond = nil
					case *ast.RangeStmt:
						return true // range scans address elements directly
					case *ast.IfStmt:
						cond = x
					}
				}
				if len(loops) == 0 || cond == nil {
					return true
				}
				// an `if` between the outermost loop and the test restricts the scan to a part of the payload when its
				// condition reads element data addressed by a loop variable (the Hessian rows of variables with a non-zero
				// first derivative only)
				restrict := ""
				{
					lv := map[types.Object]bool{}
					for _, l := range loops {
						if init, ok := l.Init.(*ast.AssignStmt); ok && init.Tok == token.DEFINE {
							for _, lh := range init.Lhs {
								if li, ok := lh.(*ast.Ident); ok {
									lv[info.Defs[li]] = true
								}
							}
						}
					}
					inLoop := false
					for _, s := range stack {
						if s == ast.Node(loops[0]) {
							inLoop = true
						}
						is, ok := s.(*ast.IfStmt)
						if !ok || !inLoop || is == cond {
							continue
						}
						ast.Inspect(is.Cond, func(m ast.Node) bool {
							switch x := m.(type) {
							case *ast.IndexExpr:
								if li, ok := ast.Unparen(x.Index).(*ast.Ident); ok && lv[info.Uses[li]] {
									restrict = types.ExprString(is.Cond)
								}
							case *ast.CallExpr:
								for _, a := range x.Args {
									if li, ok := ast.Unparen(a).(*ast.Ident); ok && lv[info.Uses[li]] {
										restrict = types.ExprString(is.Cond)
									}
								}
							}
							return true
						})
					}
				}
				if restrict != "" {
					c.Fail("C18.R16", cons, "scan setting "+id.Name, as.Pos(), "the scan that sets "+id.Name+" runs only where "+restrict+" holds: the entries it skips are never inspected before the field is omitted")
					return true
				}
				// the flag must be declared outside the outermost loop (it survives the scan)
				if v.Pos() >= loops[0].Pos() && v.Pos() < loops[0].End() {
					return true
				}
				used := map[types.Object]bool{}
				collect := func(e ast.Node) {
					if e == nil {
						return
					}
					ast.Inspect(e, func(m ast.Node) bool {
						if i, ok := m.(*ast.Ident); ok {
							if o := info.Uses[i]; o != nil {
								used[o] = true
							}
						}
						return true
					})
				}
				collect(cond.Cond)
				if cond.Init != nil {
					collect(cond.Init)
				}
				// locals defined inside the innermost loop body before the if and used by the condition
				for changed := true; changed; {
					changed = false
					ast.Inspect(loops[len(loops)-1].Body, func(m ast.Node) bool {
						if a2, ok := m.(*ast.AssignStmt); ok && a2.Tok == token.DEFINE && a2.End() <= cond.Pos() {
							for _, l := range a2.Lhs {
								if li, ok := l.(*ast.Ident); ok && used[info.Defs[li]] {
									before := len(used)
									for _, r := range a2.Rhs {
										collect(r)
									}
									if len(used) != before {
										changed = true
									}
								}
							}
						}
						return true
					})
				}
				missing := ""
				dupIndex := ""
				for _, l := range loops {
					init, ok := l.Init.(*ast.AssignStmt)
					if !ok || init.Tok != token.DEFINE {
						continue
					}
					for _, lh := range init.Lhs {
						li, ok := lh.(*ast.Ident)
						if !ok {
							continue
						}
						if o := info.Defs[li]; o != nil && !used[o] {
							missing = li.Name
						}
					}
				}
				// an accessor with several index arguments must be addressed by distinct loop variables (GetHessian(i, i)
				// inspects the diagonal only)
				if missing == "" {
					loopVars := map[types.Object]bool{}
					for _, l := range loops {
						if init, ok := l.Init.(*ast.AssignStmt); ok && init.Tok == token.DEFINE {
							for _, lh := range init.Lhs {
								if li, ok := lh.(*ast.Ident); ok {
									loopVars[info.Defs[li]] = true
								}
							}
						}
					}
					ast.Inspect(cond.Cond, func(m ast.Node) bool {
						ce, ok := m.(*ast.CallExpr)
						if !ok || len(ce.Args) < 2 {
							return true
						}
						seen := map[types.Object]bool{}
						for _, a := range ce.Args {
							ai, ok := ast.Unparen(a).(*ast.Ident)
							if !ok || !loopVars[info.Uses[ai]] {
								return true
							}
							if seen[info.Uses[ai]] {
								dupIndex = types.ExprString(ce)
							}
							seen[info.Uses[ai]] = true
						}
						return true
					})
				}
				if dupIndex != "" {
					c.Fail("C18.R16", cons, "scan setting "+id.Name, as.Pos(), "the scan that sets "+id.Name+" reads "+dupIndex+": the same loop variable in two index positions inspects only the diagonal of the payload before the field is omitted")
					return true
				}
				c.Check(missing == "", "C18.R16", cons, "scan setting "+id.Name, as.Pos(),
					"the scan that sets "+id.Name+" loops over "+missing+" but its condition "+types.ExprString(cond.Cond)+" never reads "+missing+": only a part of the payload is inspected before the field is omitted")
				return true
			})
		})
	}
}

// C18.R17 — the line reader of the table importers. bufioReadLine strips the delimiter with l[0:len(l)-1]; that is
// only right when ReadString found the delimiter, i.e. returned a nil error. The trim must therefore be dominated by
// the nil edge of a test of the error variable as ReadString assigned it (no reassignment of it may reach the trim);
// an unterminated last line must be returned untrimmed. Otherwise the last payload character of a file without a final
// newline is cut off ("45" is read as 4).
func c18LineReader(c *core.Ctx) {
	c.Rule("C18.R17", "the line reader trims the last byte of a line only on paths where ReadString returned the delimiter (nil error, error variable not reassigned)", 1)
	pkg := c.Root
	info := pkg.TypesInfo
	n := 0
	core.EachFunc(pkg, func(_ *ast.File, fd *ast.FuncDecl) {
		if fd.Body == nil {
			return
		}
		// l, err := reader.ReadString('\n')
		var lObj, errObj types.Object
		var read *ast.AssignStmt
		ast.Inspect(fd.Body, func(m ast.Node) bool {
			as, ok := m.(*ast.AssignStmt)
			if !ok || len(as.Lhs) != 2 || len(as.Rhs) != 1 {
				return true
			}
			ce, ok := ast.Unparen(as.Rhs[0]).(*ast.CallExpr)
			if !ok {
				return true
			}
			if fn := core.Callee(info, ce); fn == nil || fn.Name() != "ReadString" || fn.Pkg() == nil || fn.Pkg().Path() != "bufio" {
				return true
			}
			obj := func(e ast.Expr) types.Object {
				id, ok := e.(*ast.Ident)
				if !ok {
					return nil
				}
				if o := info.Defs[id]; o != nil {
					return o
				}
				return info.Uses[id]
			}
			lObj, errObj, read = obj(as.Lhs[0]), obj(as.Lhs[1]), as
			return true
		})
		if read == nil || lObj == nil || errObj == nil {
			return
		}
		cons := c.FuncName(pkg, fd)
		cf := core.NewFuncCFG(fd.Body, info)
		// trims: l[a : len(l)-k]
		ast.Inspect(fd.Body, func(m ast.Node) bool {
			se, ok := m.(*ast.SliceExpr)
			if !ok || se.High == nil {
				return true
			}
			if id, ok := ast.Unparen(se.X).(*ast.Ident); !ok || info.Uses[id] != lObj {
				return true
			}
			if be, ok := ast.Unparen(se.High).(*ast.BinaryExpr); !ok || be.Op != token.SUB {
				return true
			}
			n++
			// dominated by the nil edge of a test of err
			dom := false
			ast.Inspect(fd.Body, func(k ast.Node) bool {
				is, ok := k.(*ast.IfStmt)
				if !ok {
					return true
				}
				be, ok := ast.Unparen(is.Cond).(*ast.BinaryExpr)
				if !ok || (be.Op != token.NEQ && be.Op != token.EQL) {
					return true
				}
				isErr := func(e ast.Expr) bool {
					id, ok := ast.Unparen(e).(*ast.Ident)
					return ok && info.Uses[id] == errObj
				}
				isNil := func(e ast.Expr) bool {
					id, ok := ast.Unparen(e).(*ast.Ident)
					return ok && id.Name == "nil"
				}
				if !(isErr(be.X) && isNil(be.Y) || isErr(be.Y) && isNil(be.X)) {
					return true
				}
				t, f := cf.CondEdge(is.Cond)
				edge := f
				if be.Op == token.EQL {
					edge = t
				}
				if tb, _ := cf.BlockOf(se.Pos()); edge != nil && tb != nil && cf.Dominates(edge, tb) {
					dom = true
				}
				return true
			})
			// no other assignment to err before the trim
			reassigned := token.NoPos
			ast.Inspect(fd.Body, func(k ast.Node) bool {
				as, ok := k.(*ast.AssignStmt)
				if !ok || as == read {
					return true
				}
				for _, l := range as.Lhs {
					if id, ok := ast.Unparen(l).(*ast.Ident); ok && (info.Uses[id] == errObj || info.Defs[id] == errObj) && as.Pos() < se.Pos() {
						reassigned = as.Pos()
					}
				}
				return true
			})
			msg := ""
			if !dom {
				msg = "the trim " + types.ExprString(se) + " is not dominated by the nil edge of a test of the error returned by ReadString: an unterminated last line loses its last character"
			} else if reassigned != token.NoPos {
				msg = "the error returned by ReadString is overwritten before the trim " + types.ExprString(se) + ": the nil test no longer says that the delimiter was read"
			}
			c.Check(msg == "", "C18.R17", cons, "trim "+types.ExprString(se), se.Pos(), msg)
			return true
		})
	})
	if n == 0 {
		c.Unknown("C18.R17", "bufioReadLine", "trim found", token.NoPos, "no line reader that trims the result of ReadString was found")
	}
}
