package checks

import (
	"go/ast"
	"go/token"
	"go/types"
	"strings"

	"verif/internal/core"
)

// C18.R16 — presence scans of encoders. An encoder that omits a payload field when "all entries are zero" decides
// that with a scan: nested loops that set a boolean flag under a condition. The condition has to look at the entry
// addressed by all enclosing loop variables; a scan whose condition ignores one of its loop variables inspects only a
// part of the payload (e.g. the diagonal of the Hessian) and the field is dropped although it holds non-zero entries.
func c18PresenceScans(c *core.Ctx) {
	c.Rule("C18.R16", "presence scans in encoders (a boolean flag set inside loops that decides whether a payload field is written): the tested condition reads every enclosing loop variable", 4)
	for _, p := range c.LibPkgs() {
		info := p.TypesInfo
		pkg := p
		core.EachFunc(p, func(_ *ast.File, fd *ast.FuncDecl) {
			nm := fd.Name.Name
			if fd.Recv == nil || !(nm == "MarshalJSON" || strings.HasPrefix(nm, "Export")) {
				return
			}
			cons := c.FuncName(pkg, fd)
			var stack []ast.Node
			ast.Inspect(fd.Body, func(n ast.Node) bool {
				if n == nil {
					stack = stack[:len(stack)-1]
					return true
				}
				stack = append(stack, n)
				as, ok := n.(*ast.AssignStmt)
				if !ok || as.Tok != token.ASSIGN || len(as.Lhs) != 1 || len(as.Rhs) != 1 {
					return true
				}
				id, ok := ast.Unparen(as.Lhs[0]).(*ast.Ident)
				if !ok {
					return true
				}
				v, ok := info.Uses[id].(*types.Var)
				if !ok || v.Parent() == nil || v.Parent() == pkg.Types.Scope() {
					return true
				}
				if b, ok := v.Type().Underlying().(*types.Basic); !ok || b.Kind() != types.Bool {
					return true
				}
				if t, ok := ast.Unparen(as.Rhs[0]).(*ast.Ident); !ok || t.Name != "true" {
					return true
				}
				// enclosing loops and the innermost if between the innermost loop and the assignment
				var loops []*ast.ForStmt
				var cond *ast.IfStmt
				for _, s := range stack {
					switch x := s.(type) {
					case *ast.ForStmt:
						loops = append(loops, x)
						cond = nil
					case *ast.RangeStmt:
						return true // range scans address elements directly
					case *ast.IfStmt:
						cond = x
					}
				}
				if len(loops) == 0 || cond == nil {
					return true
				}
				// the flag must be declared outside the outermost loop (it survives the scan)
				if v.Pos() >= loops[0].Pos() && v.Pos() < loops[0].End() {
					return true
				}
				used := map[types.Object]bool{}
				collect := func(e ast.Node) {
					if e == nil {
						return
					}
					ast.Inspect(e, func(m ast.Node) bool {
						if i, ok := m.(*ast.Ident); ok {
							if o := info.Uses[i]; o != nil {
								used[o] = true
							}
						}
						return true
					})
				}
				collect(cond.Cond)
				if cond.Init != nil {
					collect(cond.Init)
				}
				// locals defined inside the innermost loop body before the if and used by the condition
				for changed := true; changed; {
					changed = false
					ast.Inspect(loops[len(loops)-1].Body, func(m ast.Node) bool {
						if a2, ok := m.(*ast.AssignStmt); ok && a2.Tok == token.DEFINE && a2.End() <= cond.Pos() {
							for _, l := range a2.Lhs {
								if li, ok := l.(*ast.Ident); ok && used[info.Defs[li]] {
									before := len(used)
									for _, r := range a2.Rhs {
										collect(r)
									}
									if len(used) != before {
										changed = true
									}
								}
							}
						}
						return true
					})
				}
				missing := ""
				for _, l := range loops {
					init, ok := l.Init.(*ast.AssignStmt)
					if !ok || init.Tok != token.DEFINE {
						continue
					}
					for _, lh := range init.Lhs {
						li, ok := lh.(*ast.Ident)
						if !ok {
							continue
						}
						if o := info.Defs[li]; o != nil && !used[o] {
							missing = li.Name
						}
					}
				}
				c.Check(missing == "", "C18.R16", cons, "scan setting "+id.Name, as.Pos(),
					"the scan that sets "+id.Name+" loops over "+missing+" but its condition "+types.ExprString(cond.Cond)+" never reads "+missing+": only a part of the payload is inspected before the field is omitted")
				return true
			})
		})
	}
}
