package checks

import (
	"fmt"
	"math/big"
	"strings"

	"verif/internal/sym"
	"verif/internal/vn"
)

func P(k int) *sym.Term { return sym.Sym(fmt.Sprintf("p%d", k)) }

func sumJ(lo, hi, body *sym.Term) *sym.Term { return sym.SumVar("$j", lo, hi, body) }

var jv = sym.Sym("$j")

func elem(c *sym.Term, idx ...*sym.Term) *sym.Term {
	return sym.Fn("elem", append([]*sym.Term{c}, idx...)...)
}

// opDef is the definition of one scalar operation (what the method is named and documented as).
type opDef struct {
	// def is the defining term over p0,p1,... (nil for piecewise definitions decided by accept only)
	def *sym.Term
	// logScale: compare exp(value) with exp(def) (sound: exp is injective)
	logScale bool
	// accept decides a path that does not equal def outright; returns "" when accepted, else the reason
	accept func(p *vn.Path, val *sym.Term) string
	// why: one line of reason for table entries whose function is not spelled like the method
	why string
}

// condTruth returns (value, known) of a condition string on a path.
func condTruth(p *vn.Path, c string) (bool, bool) {
	for _, cv := range p.Conds {
		if cv.C.String() == c {
			return cv.V, true
		}
	}
	return false, false
}

func lt(a, b *sym.Term) string { return (&vn.Cond{Op: "lt", A: a, B: b}).String() }

var opDefs map[string]*opDef

func init() {
	one := sym.One()
	dim0 := sym.Fn("dim", P(0))
	dm1 := func(d *sym.Term) *sym.Term { return sym.Sub(d, one) }
	expSum := func(a, b *sym.Term) *sym.Term { return sym.Fn("log", sym.Add(sym.Fn("exp", a), sym.Fn("exp", b))) }
	opDefs = map[string]*opDef{
		"neg":  {def: sym.Neg(P(0))},
		"add":  {def: sym.Add(P(0), P(1))},
		"sub":  {def: sym.Sub(P(0), P(1))},
		"mul":  {def: sym.Mul(P(0), P(1))},
		"div":  {def: sym.Div(P(0), P(1))},
		"pow":  {def: sym.Fn("pow", P(0), P(1))},
		"sqrt": {def: sym.Fn("pow", P(0), sym.Rat(1, 2)), why: "square root = power 1/2"},
		"sin":  {def: sym.Fn("sin", P(0))}, "cos": {def: sym.Fn("cos", P(0))}, "tan": {def: sym.Fn("tan", P(0))},
		"sinh": {def: sym.Fn("sinh", P(0))}, "cosh": {def: sym.Fn("cosh", P(0))}, "tanh": {def: sym.Fn("tanh", P(0))},
		"exp": {def: sym.Fn("exp", P(0))}, "log": {def: sym.Fn("log", P(0))}, "log1p": {def: sym.Fn("log1p", P(0))},
		"erf": {def: sym.Fn("erf", P(0))}, "erfc": {def: sym.Fn("erfc", P(0)), why: "complementary error function 1-erf"},
		"logerfc":    {def: sym.Fn("logerfc", P(0)), why: "log(erfc x), evaluated by special.LogErfc"},
		"gamma":      {def: sym.Fn("gamma", P(0))},
		"lgamma":     {def: sym.Fn("lgamma", P(0)), why: "first result of math.Lgamma; negative-sign domain marked NaN"},
		"mlgamma":    {def: sym.Fn("mlgamma", P(0), P(1)), why: "multivariate log-gamma special.Mlgamma(x,k)"},
		"gammap":     {def: sym.Fn("gammap", P(0), P(1)), why: "regularised lower incomplete gamma special.GammaP(a,x)"},
		"besseli":    {def: sym.Fn("besseli", P(0), P(1)), why: "modified Bessel function special.BesselI(v,x)"},
		"logbesseli": {def: sym.Fn("logbesseli", P(0), P(1)), why: "log of BesselI, special.LogBesselI"},
		"sigmoid":    {def: sym.Div(one, sym.Add(one, sym.Fn("exp", sym.Neg(P(0)))))},
		"logistic":   {def: sym.Div(one, sym.Add(one, sym.Fn("exp", sym.Neg(P(0)))))},
		"vmean":      {def: sym.Div(sumJ(sym.Zero(), dm1(dim0), elem(P(0), jv)), dim0)},
		"vdotv":      {def: sumJ(sym.Zero(), dm1(dim0), sym.Mul(elem(P(0), jv), elem(P(1), jv)))},
		"vnorm":      {def: sym.Fn("pow", sumJ(sym.Zero(), dm1(dim0), sym.Mul(elem(P(0), jv), elem(P(0), jv))), sym.Rat(1, 2)), why: "Euclidean norm"},
		"mtrace":     {def: sumJ(sym.Zero(), dm1(sym.Fn("rows", P(0))), elem(P(0), jv, jv))},
	}
	av := sym.Fn("asvec", P(0))
	opDefs["mnorm"] = &opDef{def: sym.Fn("pow", sumJ(sym.Zero(), dm1(sym.Fn("dim", av)), sym.Mul(elem(av, jv), elem(av, jv))), sym.Rat(1, 2)), why: "Frobenius norm = root of the sum of squares"}
	// smooth maximum: sum x_i e^{alpha x_i} / sum e^{alpha x_i}
	ex := sym.Fn("exp", sym.Mul(P(1), elem(P(0), jv)))
	sm := sym.Div(sumJ(sym.Zero(), dm1(dim0), sym.Mul(elem(P(0), jv), ex)), sumJ(sym.Zero(), dm1(dim0), ex))
	opDefs["smoothmax"] = &opDef{def: sm}
	opDefs["logsmoothmax"] = &opDef{def: sm, why: "same function as SmoothMax, evaluated on log scale"}
	// log-scale sums
	opDefs["logadd"] = &opDef{def: expSum(P(0), P(1)), logScale: true, accept: func(p *vn.Path, val *sym.Term) string {
		// when the smaller operand is infinite the result is the other operand
		for _, cv := range p.Conds {
			if cv.V && cv.C.Op == "isinf" {
				if sym.Equal(cv.C.A, P(0)) && sym.Equal(val, P(1)) {
					if t, ok := condTruth(p, lt(P(1), P(0))); ok && !t {
						return ""
					}
				}
				if sym.Equal(cv.C.A, P(1)) && sym.Equal(val, P(0)) {
					if t, ok := condTruth(p, lt(P(1), P(0))); ok && t {
						return ""
					}
				}
			}
		}
		return "value is not log(e^a+e^b), and not the larger operand under an is-infinite test of the smaller one"
	}}
	opDefs["logsub"] = &opDef{def: sym.Fn("log", sym.Sub(sym.Fn("exp", P(0)), sym.Fn("exp", P(1)))), logScale: true, accept: func(p *vn.Path, val *sym.Term) string {
		for _, cv := range p.Conds {
			if cv.V && cv.C.Op == "isinf" && cv.C.Arg < 0 && sym.Equal(cv.C.A, P(1)) && sym.Equal(val, P(0)) {
				return ""
			}
		}
		return "value is not log(e^a-e^b), and not a under b = -Inf"
	}}
	// log(1+e^x): exact form anywhere; e^x only on an interval bounded above by a negative threshold;
	// x and x+e^{-x} only on an interval bounded below by a positive threshold
	x := P(0)
	exact := sym.Fn("log", sym.Add(one, sym.Fn("exp", x)))
	opDefs["log1pexp"] = &opDef{def: exact, accept: func(p *vn.Path, val *sym.Term) string {
		var lo, hi *big.Rat // x in (lo, hi]
		for _, cv := range p.Conds {
			if cv.C.Op != "lt" {
				return "unexpected condition " + cv.String()
			}
			// conditions come as lt(K, x) [x > K] from "x <= K" negated
			if k, ok := cv.C.A.IsConst(); ok && sym.Equal(cv.C.B, x) {
				if cv.V { // x > K
					if lo == nil || k.Cmp(lo) > 0 {
						lo = k
					}
				} else { // x <= K
					if hi == nil || k.Cmp(hi) < 0 {
						hi = k
					}
				}
			} else if k, ok := cv.C.B.IsConst(); ok && sym.Equal(cv.C.A, x) {
				if cv.V { // x < K
					if hi == nil || k.Cmp(hi) < 0 {
						hi = k
					}
				} else { // x >= K
					if lo == nil || k.Cmp(lo) > 0 {
						lo = k
					}
				}
			} else {
				return "unexpected condition " + cv.String()
			}
		}
		negTail := sym.Fn("exp", x)
		posTail1 := x
		posTail2 := sym.Add(x, sym.Fn("exp", sym.Neg(x)))
		switch {
		case sym.Equal(val, negTail):
			if hi != nil && hi.Sign() < 0 {
				return ""
			}
			return "approximant e^x used on an interval that is not bounded above by a negative threshold"
		case sym.Equal(val, posTail1), sym.Equal(val, posTail2):
			if lo != nil && lo.Sign() > 0 {
				return ""
			}
			return "large-x approximant used on an interval that is not bounded below by a positive threshold"
		}
		return "value " + val.String() + " is none of log(1+e^x), e^x (x<<0), x+e^-x or x (x>>0)"
	}}
	// |x|
	opDefs["abs"] = &opDef{accept: func(p *vn.Path, val *sym.Term) string {
		neg, k1 := condTruth(p, lt(P(0), sym.Zero()))
		pos, k2 := condTruth(p, lt(sym.Zero(), P(0)))
		switch {
		case k1 && neg:
			if sym.Equal(val, sym.Neg(P(0))) {
				return ""
			}
			return "for a < 0 the result must be -a"
		case k1 && !neg && k2 && pos:
			if sym.Equal(val, P(0)) {
				return ""
			}
			return "for a > 0 the result must be a"
		case k1 && !neg && k2 && !pos:
			if val.IsZero() || sym.Equal(val, P(0)) {
				return ""
			}
			return "for a = 0 the result must be 0"
		case k1 && !neg && !k2:
			if sym.Equal(val, P(0)) {
				return ""
			}
			return "for a >= 0 the result must be a"
		}
		return "branches are not decided by the sign of the operand (conditions: " + p.CondString() + ")"
	}}
	minmax := func(isMin bool) func(p *vn.Path, val *sym.Term) string {
		return func(p *vn.Path, val *sym.Term) string {
			// lt(p0,p1) known?
			if t, ok := condTruth(p, lt(P(0), P(1))); ok {
				// a<b : min=a max=b ; else (a>=b): min=b, max=a
				want := P(1)
				if t == isMin {
					want = P(0)
				}
				if sym.Equal(val, want) {
					return ""
				}
				return "picks the wrong operand under " + p.CondString()
			}
			if t, ok := condTruth(p, lt(P(1), P(0))); ok {
				// b<a : min=b max=a ; else (a<=b): min=a max=b
				want := P(0)
				if t == isMin {
					want = P(1)
				}
				if sym.Equal(val, want) {
					return ""
				}
				return "picks the wrong operand under " + p.CondString()
			}
			return "branch is not decided by comparing the two operands (conditions: " + p.CondString() + ")"
		}
	}
	opDefs["min"] = &opDef{accept: minmax(true)}
	opDefs["max"] = &opDef{accept: minmax(false)}
}

// checkAgainstDef decides one path of operation `name`; returns "" if it matches the definition.
func checkAgainstDef(name string, p *vn.Path, val *sym.Term) string {
	d, ok := opDefs[strings.ToLower(name)]
	if !ok {
		return "undecided: no definition for operation " + name
	}
	if d.def != nil {
		if sym.Equal(val, d.def) {
			return ""
		}
		if d.logScale && sym.Equal(sym.Fn("exp", val), sym.Fn("exp", d.def)) {
			return ""
		}
	}
	if d.accept != nil {
		return d.accept(p, val)
	}
	return "value is " + val.String() + " but " + name + " is defined as " + d.def.String()
}
