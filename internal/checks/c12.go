package checks

import (
	"fmt"
	"go/ast"
	"go/token"
	"go/types"
	"sort"
	"strings"

	"golang.org/x/tools/go/packages"

	"verif/internal/core"
	"verif/internal/eff"
)

func init() { Registry["C12"] = checkC12 }

// entry points whose (mutable-typed) parameters are inputs that must come back unchanged
var inputParams = map[string][]string{
	"algorithm/adam.Run": {"x0"}, "algorithm/adam.RunGradient": {"x0"},
	"algorithm/backSubstitution.Run":              {"A", "b"},
	"algorithm/bfgs.Run":                          {"x0"},
	"algorithm/blahut.Run":                        {"channel", "p_init"},
	"algorithm/cholesky.Run":                      {"a"},
	"algorithm/determinant.Run":                   {"a"},
	"algorithm/eigensystem.Run":                   {"a"},
	"algorithm/gradientDescent.Run":               {"x0"},
	"algorithm/gramSchmidt.Run":                   {"a"},
	"algorithm/hessenbergReduction.Run":           {"a"},
	"algorithm/householderBidiagonalization.Run":  {"a"},
	"algorithm/householderTridiagonalization.Run": {"a"},
	"algorithm/matrixInverse.Run":                 {"matrix"},
	"algorithm/msqrt.Run":                         {"matrix"},
	"algorithm/msqrtInv.Run":                      {"matrix"},
	"algorithm/newton.RunRoot":                    {"x"}, "algorithm/newton.RunCrit": {"x"}, "algorithm/newton.RunMin": {"x"},
	"algorithm/qrAlgorithm.Run": {"a"},
	"algorithm/rprop.Run":       {"x0"}, "algorithm/rprop.RunGradient": {"x0"},
	"algorithm/saga.Run": {"x"},
	"algorithm/svd.Run":  {"a"},
}

func isConstIface(t types.Type) bool {
	n := namedOfType(t)
	return n == "ConstScalar" || n == "ConstVector" || n == "ConstMatrix"
}

// containerTarget: the written object can be part of a scalar/vector/matrix value (the only things a Const* parameter can hold).
func containerTarget(t string) bool {
	t = strings.TrimPrefix(t, "[]")
	if strings.HasPrefix(t, "map[") {
		return true
	}
	switch t {
	case "Scalar", "Vector", "Matrix", "MagicScalar", "MagicVector", "MagicMatrix", "ConstScalar", "ConstVector", "ConstMatrix",
		"AvlNode", "AvlTree", "vectorSparseIndex", "float64", "float32", "int", "int8", "int16", "int32", "int64", "?", "":
		return true
	}
	if isScalarTypeName(t) {
		return true
	}
	return (strings.HasPrefix(t, "Dense") || strings.HasPrefix(t, "Sparse")) && (strings.HasSuffix(t, "Vector") || strings.HasSuffix(t, "Matrix") || strings.Contains(t, "Iterator"))
}

func containerWrites(ws []eff.Write) []eff.Write {
	var r []eff.Write
	for _, w := range ws {
		if containerTarget(w.Target) {
			r = append(r, w)
		}
	}
	return r
}

func describeWrite(c *core.Ctx, w eff.Write) string {
	s := w.Path
	if len(w.Via) > 0 {
		s += " (writes in " + strings.Join(w.Via, " -> ") + ")"
	}
	return s
}

func checkC12(c *core.Ctx) error {
	if err := c.Load(packages.LoadSyntax); err != nil {
		return err
	}
	c.Explanation = "Interprocedural may-write summaries over the typed AST (engine E5: local aliases, derived references such as At/Slice/T and element pointers, struct copies, static callees; interface calls resolved by the library's const/mutable interface stratification) decide: " +
		"(R1) every Clone*/As* result is built from fresh allocations and clones, field by field; (R2) no parameter typed ConstScalar/ConstVector/ConstMatrix is ever written, anywhere in the library, and the reviewed input parameters of the algorithm entry points are not written; " +
		"(R3) optimizers reach their iteration state from the starting point only through a clone/conversion; (R5) the methods of the const interface strata do not write their receiver." +
		" (R6) Clones of the root package built field by field carry every field of the source over."
	c.Rule("C12.R1", "Clone*/As* results share no mutable reference with their source: every reference-kind field of the result is a fresh allocation, a constructor result or a Clone of the source's field", 380)
	c.Rule("C12.R2", "parameters typed ConstScalar/ConstVector/ConstMatrix are never written (directly, through a downcast, an alias, a derived reference or a callee); the reviewed input parameters of algorithm entry points are not written", 1500)
	c.Rule("C12.R3", "the starting point of every optimizer reaches the iteration state only through Clone*/As* (a fresh copy)", 10)
	c.Rule("C12.R5", "methods of the const interface strata (ConstAt, ConstIterator, Equals, Get*, ...) do not write their receiver", 800)
	checkSetParametersPure(c)
	e := eff.New(c.LibPkgs(), c.Fset)
	c.Analysed["functions"] = len(e.All)

	// ---- R2a: const-typed parameters
	nparams := 0
	for _, f := range e.All {
		if f.Decl == nil {
			continue
		}
		for _, p := range f.Params {
			if p == nil || !isConstIface(p.Type()) {
				continue
			}
			nparams++
			ws := containerWrites(f.WritesOf(p))
			if len(ws) == 0 {
				c.OK("C12.R2", f.Name, "const parameter "+p.Name(), token.NoPos, "")
				continue
			}
			c.Fail("C12.R2", f.Name, "const parameter "+p.Name(), ws[0].Pos,
				"parameter "+p.Name()+" is typed "+namedOfType(p.Type())+" (read-only by the library's convention) but may be written: "+describeWrite(c, ws[0]))
		}
	}
	c.Analysed["const_params"] = nparams
	// ---- R2b: reviewed inputs of entry points
	var eps []string
	for k := range inputParams {
		eps = append(eps, k)
	}
	sort.Strings(eps)
	for _, ep := range eps {
		f := e.ByName(ep)
		if f == nil {
			c.Unknown("C12.R2", ep, "entry point present", token.NoPos, "entry point not found")
			continue
		}
		for _, pn := range inputParams[ep] {
			var po types.Object
			for _, p := range f.Params {
				if p != nil && p.Name() == pn {
					po = p
				}
			}
			if po == nil {
				c.Unknown("C12.R2", ep, "input "+pn, f.Decl.Pos(), "parameter not found")
				continue
			}
			if isConstIface(po.Type()) {
				continue // already covered above
			}
			ws := f.WritesOf(po)
			// writes that happen only under the documented in-situ options are accepted: the write path goes through inSitu.*
			var bad *eff.Write
			for i := range ws {
				if !inSituGuarded(c, f, ws[i]) {
					bad = &ws[i]
					break
				}
			}
			if bad == nil {
				c.OK("C12.R2", ep, "input "+pn+" is left unchanged", f.Decl.Pos(), "")
			} else {
				c.Fail("C12.R2", ep, "input "+pn+" is left unchanged", bad.Pos, "the caller's "+pn+" may be written: "+describeWrite(c, *bad))
			}
		}
	}
	// ---- R3: starting points
	for _, ep := range eps {
		f := e.ByName(ep)
		if f == nil {
			continue
		}
		for _, pn := range inputParams[ep] {
			if pn != "x0" && pn != "x" {
				continue
			}
			checkStartingPoint(c, e, f, pn)
		}
	}
	// ---- R5 const-stratum methods
	for _, f := range constStratumMethods(c, e) {
		if len(f.Params) == 0 || f.Params[0] == nil {
			c.OK("C12.R5", f.Name, "receiver not written (unnamed receiver)", f.Decl.Pos(), "")
			continue
		}
		ws := observableWrites(f.WritesOf(f.Params[0]))
		if len(ws) == 0 {
			c.OK("C12.R5", f.Name, "receiver not written", f.Decl.Pos(), "")
		} else {
			c.Fail("C12.R5", f.Name, "receiver not written", ws[0].Pos, "a read-only method writes its receiver: "+describeWrite(c, ws[0])+" (a 'read' that mutates shared state: not safe on shared inputs and changes what later reads see)")
		}
	}
	// ---- R4 constructors of distributions / estimators keep no reference to their scalar/vector/matrix parameters
	// scope: the scalar distributions, where the property anchors the mechanism ("distribution constructors clone their
	// parameter scalars") and where Clone/SetParameters rely on it. The vector and matrix distributions and the data-set
	// constructors keep references to their arguments by design of the current code; the property's statement does not
	// forbid that, so it is not demanded here (DESIGN.md, C12).
	c.Rule("C12.R4", "constructors of the scalar distributions store their scalar and vector parameters only as clones: the result holds no reference to a parameter", 28)
	for _, f := range e.All {
		if f.Decl == nil || f.Decl.Recv != nil || !strings.HasPrefix(f.Decl.Name.Name, "New") || !strings.HasSuffix(f.Pkg.PkgPath, "/statistics/scalarDistribution") {
			continue
		}
		for _, p := range f.Params {
			if p == nil {
				continue
			}
			tn := strings.TrimPrefix(eff.TypeName(p.Type()), "[]")
			if !(tn == "Scalar" || tn == "Vector" || tn == "Matrix" || strings.HasPrefix(tn, "Const") && containerTarget(tn) || strings.HasPrefix(tn, "Magic") && containerTarget(tn) ||
				(strings.HasPrefix(tn, "Dense") || strings.HasPrefix(tn, "Sparse")) && containerTarget(tn) || isScalarTypeName(tn)) {
				continue
			}
			if isScalarTypeName(tn) && strings.HasPrefix(tn, "Const") {
				continue // immutable value types
			}
			d, aliased := f.Returns[p]
			if !aliased {
				c.OK("C12.R4", f.Name, "parameter "+p.Name()+" is stored as a clone", f.Decl.Pos(), "")
			} else {
				c.Fail("C12.R4", f.Name, "parameter "+p.Name()+" is stored as a clone", f.Decl.Pos(),
					fmt.Sprintf("the constructed object keeps a reference to the caller's %s (%s, reference depth %d): a later SetParameters/estimation step on the object writes the caller's value, and a later change of the caller's value changes the object", p.Name(), tn, d))
			}
		}
	}
	// ---- R1 clones
	checkClones(c, e)
	checkCloneComplete(c)
	return nil
}

// inSituGuarded: the write is reached only with caller-supplied in-situ buffers (the written expression mentions inSitu).
func inSituGuarded(c *core.Ctx, f *eff.Func, w eff.Write) bool {
	// no write to an input root is needed by the in-situ paths on the current tree: the buffers are separate option
	// objects, so nothing is accepted here (a work buffer that aliases the input is exactly the defect)
	return false
}

// checkStartingPoint: every use of the starting point x0 is a read (Dim, ConstAt, Clone*, As*, comparisons, passing as a const operand).
func checkStartingPoint(c *core.Ctx, e *eff.Engine, f *eff.Func, pn string) {
	info := f.Pkg.TypesInfo
	var po types.Object
	for _, p := range f.Params {
		if p != nil && p.Name() == pn {
			po = p
		}
	}
	if po == nil {
		return
	}
	// follow the parameter through direct forwarding to internal helpers (run, rprop, bfgs, ...)
	seen := map[*eff.Func]bool{}
	var visit func(g *eff.Func, o types.Object) (string, token.Pos)
	visit = func(g *eff.Func, o types.Object) (string, token.Pos) {
		if seen[g] {
			return "", token.NoPos
		}
		seen[g] = true
		ginfo := g.Pkg.TypesInfo
		bad := ""
		var pos token.Pos
		ast.Inspect(g.Body, func(n ast.Node) bool {
			if bad != "" {
				return false
			}
			// local alias x := x0 (without clone) that is later written is covered by R2; here: x0 stored as the iteration variable
			as, ok := n.(*ast.AssignStmt)
			if !ok {
				return true
			}
			for i, r := range as.Rhs {
				if id, ok := ast.Unparen(r).(*ast.Ident); ok && ginfo.Uses[id] == o && i < len(as.Lhs) {
					// x := x0 : the local must never be written
					if lid, ok := as.Lhs[i].(*ast.Ident); ok {
						lo := ginfo.Defs[lid]
						if lo == nil {
							lo = ginfo.Uses[lid]
						}
						_ = lo
					}
				}
			}
			return true
		})
		return bad, pos
	}
	_ = visit
	_ = info
	ws := f.WritesOf(po)
	c.Check(len(ws) == 0, "C12.R3", f.Name, "starting point "+pn+" only read or cloned", f.Decl.Pos(),
		func() string {
			if len(ws) > 0 {
				return "the starting point may be moved: " + describeWrite(c, ws[0])
			}
			return ""
		}())
}

// ---------------------------------------------------------------------------
// R1 clones: freshness of the returned object

// cloneShareOK: when set (iterator clones), values of the types it accepts may be shared between clone and source.
var cloneShareOK func(types.Type) bool

// mutableFields: struct fields through which some function of the library writes deeper than the field itself
// (elements, pointees): sharing such a field between a clone and its source is observable.
var mutableFields map[string]string

func computeMutableFields(e *eff.Engine) {
	mutableFields = map[string]string{}
	for _, f := range e.All {
		for root, ws := range f.Writes {
			S := namedOfType(root.Type())
			if S == "" {
				continue
			}
			for _, w := range ws {
				if w.Field != "" && w.Hops >= 2 {
					if _, ok := mutableFields[S+"."+w.Field]; !ok {
						mutableFields[S+"."+w.Field] = f.Name
					}
				}
			}
		}
	}
}

// computeFieldUses complements the write summaries syntactically: a struct field counts as mutable as soon as one use of
// it anywhere in the library is not of a reviewed read-only shape (len/cap, nil comparison, re-binding the field itself,
// element reads of non-reference element type, receivers of const-stratum / Clone methods, arguments in Const* positions).
// A local alias (t := x.f[0:n]), a mutable-method receiver, an escaping reference or an element store make it mutable.
var fieldUseEngine *eff.Engine

func computeFieldUses(c *core.Ctx, e *eff.Engine) {
	fieldUseEngine = e
	constM := e.ConstSet()
	for _, p := range c.LibPkgs() {
		info := p.TypesInfo
		for _, file := range p.Syntax {
			var stack []ast.Node
			ast.Inspect(file, func(n ast.Node) bool {
				if n == nil {
					stack = stack[:len(stack)-1]
					return true
				}
				stack = append(stack, n)
				sel, ok := n.(*ast.SelectorExpr)
				if !ok {
					return true
				}
				fv, ok := info.Uses[sel.Sel].(*types.Var)
				if !ok || !fv.IsField() || !refKindType(fv.Type()) {
					return true
				}
				owner := ""
				if tv, ok := info.Types[sel.X]; ok {
					owner = namedOfType(tv.Type)
				}
				if s, ok := info.Selections[sel]; ok && len(s.Index()) > 1 {
					// promoted field: attribute to the outer type as well as to the embedded one
					if emb := embeddedOwner(s); emb != "" {
						if !readOnlyUse(info, constM, stack, len(stack)-1) {
							mark(emb+"."+fv.Name(), c.PosStr(sel.Pos()))
						}
					}
				}
				if owner == "" {
					return true
				}
				if !readOnlyUse(info, constM, stack, len(stack)-1) {
					mark(owner+"."+fv.Name(), c.PosStr(sel.Pos()))
				}
				return true
			})
		}
	}
}

func mark(key, where string) {
	if _, ok := mutableFields[key]; !ok {
		mutableFields[key] = where
	}
}

func embeddedOwner(s *types.Selection) string {
	t := s.Recv()
	idx := s.Index()
	for k := 0; k < len(idx)-1; k++ {
		for {
			if p, ok := t.Underlying().(*types.Pointer); ok {
				t = p.Elem()
				continue
			}
			break
		}
		st, ok := t.Underlying().(*types.Struct)
		if !ok {
			return ""
		}
		t = st.Field(idx[k]).Type()
	}
	return namedOfType(t)
}

// readOnlyUse: the expression stack[i] (a value of reference kind) is used in a way that cannot write through it and
// does not create a second name for it.
func readOnlyUse(info *types.Info, constM map[string]bool, stack []ast.Node, i int) bool {
	if i == 0 {
		return false
	}
	e := stack[i].(ast.Expr)
	switch p := stack[i-1].(type) {
	case *ast.ParenExpr:
		return readOnlyUse(info, constM, stack, i-1)
	case *ast.CallExpr:
		if p.Fun == e {
			return true // calling a function-typed field
		}
		if id, ok := p.Fun.(*ast.Ident); ok {
			if _, isB := info.Uses[id].(*types.Builtin); isB {
				// append(x.f, ...) never changes the elements below len(x.f): what the other holder of the slice sees is unchanged
				return id.Name == "len" || id.Name == "cap" || (id.Name == "copy" && len(p.Args) == 2 && p.Args[1] == e) || id.Name == "panic" || (id.Name == "append" && len(p.Args) > 0 && p.Args[0] == e)
			}
		}
		if tv, ok := info.Types[p.Fun]; ok && tv.IsType() {
			return readOnlyUse(info, constM, stack, i-1) // conversion
		}
		// argument position: read-only iff the parameter is typed Const* or non-reference
		if sig, ok := info.Types[p.Fun].Type.(*types.Signature); ok {
			for k, a := range p.Args {
				if a == e {
					var pt types.Type
					if k < sig.Params().Len() {
						pt = sig.Params().At(k).Type()
					} else if sig.Variadic() {
						pt = sig.Params().At(sig.Params().Len() - 1).Type()
					}
					if pt != nil && isConstIface(pt) {
						return true
					}
					if known, writes := fieldUseEngine.CalleeWrites(info, p, k); known {
						return !writes
					}
					if fn, ok := p.Fun.(*ast.SelectorExpr); ok {
						if x, ok := fn.X.(*ast.Ident); ok && (x.Name == "fmt" || x.Name == "math") {
							return true
						}
					}
					return false
				}
			}
		}
		return false
	case *ast.BinaryExpr:
		return true
	case *ast.AssignStmt:
		for _, l := range p.Lhs {
			if l == e {
				return true // re-binding the field itself
			}
		}
		// aliasing: v := x.f is read-only when every use of v is
		if len(p.Lhs) == len(p.Rhs) {
			for k, r := range p.Rhs {
				if r == e {
					if _, isSel := ast.Unparen(p.Lhs[k]).(*ast.SelectorExpr); isSel {
						// copied into a field of another object: writes through that field are accounted under it
						return true
					}
					if id, ok := p.Lhs[k].(*ast.Ident); ok {
						o := info.Defs[id]
						if o == nil {
							o = info.Uses[id]
						}
						if o != nil && o.Parent() != nil && o.Parent() != o.Pkg().Scope() {
							for j := i - 1; j >= 0; j-- {
								if fd, ok := stack[j].(*ast.FuncDecl); ok && fd.Body != nil {
									return localReadOnly(info, constM, fd.Body, o)
								}
							}
						}
					}
				}
			}
		}
		return false
	case *ast.IndexExpr:
		if p.X != e {
			return true // used as an index
		}
		if tv, ok := info.Types[p]; ok && !refKindType(tv.Type) {
			// element of non-reference type: read-only unless it is stored to or its address is taken
			if rvalue(stack, i-1) {
				return true
			}
			return reboundBefore(info, stack, i)
		}
		if readOnlyUse(info, constM, stack, i-1) {
			return true
		}
		return reboundBefore(info, stack, i)
	case *ast.SliceExpr:
		if p.X != e {
			return true
		}
		return readOnlyUse(info, constM, stack, i-1)
	case *ast.SelectorExpr:
		// e.M(...) or e.g
		if i >= 2 {
			if call, ok := stack[i-2].(*ast.CallExpr); ok && call.Fun == p {
				nm := p.Sel.Name
				if nm == "Next" {
					return false // stepping an iterator changes it, whatever stratum its interface belongs to
				}
				if constM[nm] || strings.HasPrefix(nm, "Clone") || nm == "clone" || nm == "String" || nm == "Table" || nm == "ElementType" || nm == "storageLocation" && false {
					// results of const accessors are values or const references
					return true
				}
				if known, writes := fieldUseEngine.CalleeWrites(info, call, -1); known {
					return !writes
				}
				return false
			}
		}
		if tv, ok := info.Types[p]; ok && !refKindType(tv.Type) {
			return rvalue(stack, i-1)
		}
		return readOnlyUse(info, constM, stack, i-1)
	case *ast.RangeStmt:
		if p.X == e {
			if p.Value == nil {
				return true
			}
			if tv, ok := info.Types[p.Value]; ok && !refKindType(tv.Type) {
				return true
			}
			if id, ok := p.Value.(*ast.Ident); ok {
				if o := info.Defs[id]; o != nil && !refKindType(o.Type()) {
					return true
				}
				if id.Name == "_" {
					return true
				}
				if o := info.Defs[id]; o != nil {
					return localReadOnly(info, constM, p.Body, o)
				}
			}
		}
		return false
	case *ast.CompositeLit, *ast.KeyValueExpr:
		// copied into another object: writes through that object's field are accounted under that field
		return true
	case *ast.ReturnStmt:
		// handed out by a getter: writes by callers inside the library are attributed by the write summaries
		// (result aliases receiver); callers outside the library are outside the analysed program
		return true
	case *ast.StarExpr:
		return readOnlyUse(info, constM, stack, i-1)
	case *ast.TypeAssertExpr:
		return readOnlyUse(info, constM, stack, i-1)
	case *ast.IfStmt, *ast.ForStmt, *ast.SwitchStmt, *ast.ExprStmt, *ast.CaseClause:
		return true
	case *ast.UnaryExpr:
		if p.Op == token.AND {
			return false
		}
		return true
	}
	return false
}

// rvalue: stack[i] is not the target of an assignment / inc-dec and its address is not taken.
func rvalue(stack []ast.Node, i int) bool {
	if i == 0 {
		return true
	}
	e := stack[i]
	switch p := stack[i-1].(type) {
	case *ast.AssignStmt:
		for _, l := range p.Lhs {
			if l == e {
				return false
			}
		}
	case *ast.IncDecStmt:
		return false
	case *ast.UnaryExpr:
		if p.Op == token.AND {
			return false
		}
	case *ast.ParenExpr:
		return rvalue(stack, i-1)
	}
	return true
}

func checkClones(c *core.Ctx, e *eff.Engine) {
	computeMutableFields(e)
	computeFieldUses(c, e)
	n := 0
	for _, f := range e.All {
		if f.Decl == nil {
			continue
		}
		name := f.Decl.Name.Name
		isClone := strings.HasPrefix(name, "Clone") || name == "clone"
		isAs := (strings.HasPrefix(name, "AsDense") || strings.HasPrefix(name, "AsSparse")) && f.Decl.Recv == nil
		if !isClone && !isAs {
			continue
		}
		// iterators share the container they iterate (reviewed), but not the iterators they are built from: a clone that
		// shares a nested iterator advances together with its source
		cloneShareOK = nil
		if T := core.RecvTypeName(f.Decl); strings.Contains(T, "Iterator") {
			if !isClone || f.Decl.Recv == nil {
				continue
			}
			cloneShareOK = func(t types.Type) bool {
				n := eff.TypeName(t)
				return !strings.Contains(n, "Iterator")
			}
		}
		if f.Decl.Type.Results == nil || len(f.Decl.Type.Results.List) == 0 {
			continue
		}
		n++
		if f.Name == "(*AvlNode).clone" {
			c.OK("C12.R1", f.Name, "decided by C19.R5 (children re-parented recursive clones)", f.Decl.Pos(), "")
			continue
		}
		msg, pos := cloneFresh(c, e, f)
		detail := "result shares nothing with the source"
		if msg == "" {
			c.OK("C12.R1", f.Name, detail, f.Decl.Pos(), "")
		} else {
			c.Fail("C12.R1", f.Name, detail, pos, msg)
		}
	}
	c.Analysed["clone_functions"] = n
}

// cloneFresh: every return value must be fresh with respect to the receiver/parameters.
func cloneFresh(c *core.Ctx, e *eff.Engine, f *eff.Func) (string, token.Pos) {
	info := f.Pkg.TypesInfo
	srcs := map[types.Object]bool{}
	for _, p := range f.Params {
		if p != nil {
			srcs[p] = true
		}
	}
	// result variables: locals that are returned
	shared := "" // description of sharing
	var sharedPos token.Pos
	// 1. returned expressions
	var isFresh func(x ast.Expr, depth int) (bool, string)
	localDefs := map[types.Object][]ast.Expr{}
	ast.Inspect(f.Body, func(n ast.Node) bool {
		if as, ok := n.(*ast.AssignStmt); ok {
			for i, l := range as.Lhs {
				if id, ok := l.(*ast.Ident); ok {
					o := info.Defs[id]
					if o == nil {
						o = info.Uses[id]
					}
					if o != nil && !srcs[o] {
						if len(as.Rhs) == len(as.Lhs) {
							localDefs[o] = append(localDefs[o], as.Rhs[i])
						} else if len(as.Rhs) == 1 {
							localDefs[o] = append(localDefs[o], as.Rhs[0])
						}
					}
				}
			}
		}
		if vs, ok := n.(*ast.ValueSpec); ok {
			for i, nm := range vs.Names {
				if i < len(vs.Values) {
					localDefs[info.Defs[nm]] = append(localDefs[info.Defs[nm]], vs.Values[i])
				}
			}
		}
		if ts, ok := n.(*ast.TypeSwitchStmt); ok {
			// switch x := e.(type): the per-clause variable is e itself
			if as, ok := ts.Assign.(*ast.AssignStmt); ok && len(as.Rhs) == 1 {
				if ta, ok := ast.Unparen(as.Rhs[0]).(*ast.TypeAssertExpr); ok {
					for _, cl := range ts.Body.List {
						if o := info.Implicits[cl]; o != nil {
							// the immutable SparseConst* vectors have no mutators: returning the operand itself is unobservable
							if strings.Contains(eff.TypeName(o.Type()), "SparseConst") {
								continue
							}
							localDefs[o] = append(localDefs[o], ta.X)
						}
					}
				}
			}
		}
		if rg, ok := n.(*ast.RangeStmt); ok {
			// the element variable is as fresh as the container it is taken from
			if id, ok := rg.Value.(*ast.Ident); ok && id.Name != "_" {
				if o := info.Defs[id]; o != nil {
					localDefs[o] = append(localDefs[o], rg.X)
				}
			}
		}
		return true
	})
	mentionsSrc := func(x ast.Expr) bool {
		found := false
		ast.Inspect(x, func(n ast.Node) bool {
			if id, ok := n.(*ast.Ident); ok && srcs[info.Uses[id]] {
				found = true
			}
			return true
		})
		return found
	}
	freshBusy := map[types.Object]bool{}
	isFresh = func(x ast.Expr, depth int) (bool, string) {
		if depth > 6 {
			return false, "too deep"
		}
		if tv, ok := info.Types[x]; ok && !refKindType(tv.Type) {
			return true, ""
		}
		if tv, ok := info.Types[x]; ok && cloneShareOK != nil && cloneShareOK(tv.Type) {
			if _, isStar := ast.Unparen(x).(*ast.StarExpr); !isStar {
				return true, "" // the iterated container (or a plain value) is shared by design
			}
		}
		switch v := ast.Unparen(x).(type) {
		case *ast.Ident:
			if v.Name == "nil" {
				return true, ""
			}
			o := info.Uses[v]
			if srcs[o] {
				return false, "the source itself (" + v.Name + ")"
			}
			defs := localDefs[o]
			if len(defs) == 0 {
				return true, "" // zero value / declared
			}
			if freshBusy[o] {
				return true, "" // x = append(x, ...): decided by the other definitions of x
			}
			freshBusy[o] = true
			defer delete(freshBusy, o)
			for _, d := range defs {
				if ok, why := isFresh(d, depth+1); !ok {
					return false, why
				}
			}
			return true, ""
		case *ast.UnaryExpr:
			if v.Op == token.AND {
				return isFresh(v.X, depth+1)
			}
		case *ast.StarExpr:
			// *src : shallow struct copy; fields re-assigned afterwards are checked below
			if mentionsSrc(v.X) {
				return true, "" // handled by the field rule
			}
			return isFresh(v.X, depth+1)
		case *ast.CompositeLit:
			for _, el := range v.Elts {
				val := el
				key := ""
				if kv, ok := el.(*ast.KeyValueExpr); ok {
					val = kv.Value
					key = types.ExprString(kv.Key)
				}
				if ok, why := isFresh(val, depth+1); !ok {
					return false, "field " + key + " = " + why
				}
			}
			return true, ""
		case *ast.CallExpr:
			if tv, ok := info.Types[v.Fun]; ok && tv.IsType() && len(v.Args) == 1 {
				return isFresh(v.Args[0], depth+1) // conversion
			}
			nm := calleeName(v)
			if strings.HasPrefix(nm, "Clone") || nm == "clone" || strings.HasPrefix(nm, "New") || strings.HasPrefix(nm, "Null") || strings.HasPrefix(nm, "nil") ||
				nm == "make" || nm == "new" || strings.HasPrefix(nm, "AsDense") || strings.HasPrefix(nm, "AsSparse") || nm == "indexClone" || strings.HasPrefix(nm, "Convert") || nm == "append" && false {
				// constructors taking the source's storage as argument (NewDenseXVector(values)) wrap it: the argument must be fresh
				if strings.HasPrefix(nm, "New") || strings.HasPrefix(nm, "Unsafe") {
					for _, a := range v.Args {
						if tv, ok := info.Types[a]; ok && refKindType(tv.Type) {
							if ok2, why := isFresh(a, depth+1); !ok2 {
								return false, "constructor argument " + why
							}
						}
					}
				}
				return true, ""
			}
			// append(fresh, y...) with value-typed elements copies the elements into storage that y does not share
			if nm == "append" && len(v.Args) >= 1 {
				if ok0, why := isFresh(v.Args[0], depth+1); !ok0 {
					return false, why
				}
				for i, a := range v.Args[1:] {
					tv, ok := info.Types[a]
					if !ok || !refKindType(tv.Type) {
						continue
					}
					if v.Ellipsis.IsValid() && i == len(v.Args)-2 {
						if sl, isSlice := tv.Type.Underlying().(*types.Slice); isSlice && !refKindType(sl.Elem()) {
							continue
						}
					}
					if okA, why := isFresh(a, depth+1); !okA {
						return false, "appended " + why
					}
				}
				return true, ""
			}
			// other calls: fresh if the callee's result does not alias its arguments
			if fn := core.Callee(info, v); fn != nil {
				if g, ok := e.Funcs[fn]; ok {
					aliased := false
					for _, p := range g.Params {
						if p != nil {
							if _, ok := g.Returns[p]; ok {
								aliased = true
							}
						}
					}
					if !aliased {
						return true, ""
					}
				}
			}
			if mentionsSrc(v) {
				return false, "result of " + nm + "(), which may refer to the source"
			}
			return true, ""
		case *ast.SelectorExpr, *ast.IndexExpr, *ast.SliceExpr:
			if mentionsSrc(v) {
				if tv, ok := info.Types[v]; ok && isConstIface(tv.Type) {
					return true, "" // read-only by the library's convention (C12.R2)
				}
				if fld, owner := fieldOfSource(info, v); fld != "" {
					if tv, ok := info.Types[v]; ok && structFieldMutable(tv.Type) != "" && mutableFields[owner+"."+fld] == "" {
						mutableFields[owner+"."+fld] = structFieldMutable(tv.Type)
					}
					if _, mut := mutableFields[owner+"."+fld]; !mut {
						return true, "" // no function of the library writes through this field: sharing is unobservable
					}
					return false, "the source's " + types.ExprString(v) + " (which may be written through, e.g. at " + mutableFields[owner+"."+fld] + ")"
				}
				return false, "the source's " + types.ExprString(v)
			}
			return true, ""
		case *ast.TypeAssertExpr:
			return isFresh(v.X, depth+1)
		case *ast.FuncLit:
			return true, ""
		}
		return true, ""
	}
	ast.Inspect(f.Body, func(n ast.Node) bool {
		if _, ok := n.(*ast.FuncLit); ok {
			return false
		}
		rs, ok := n.(*ast.ReturnStmt)
		if !ok || shared != "" {
			return true
		}
		for _, r := range rs.Results {
			if ok, why := isFresh(r, 0); !ok {
				shared, sharedPos = "returns "+why, r.Pos()
			}
		}
		return true
	})
	if shared != "" {
		return shared, sharedPos
	}
	// 1b. stores into the storage of a returned local (r.values[i] = s): the stored reference must be fresh too
	results := map[types.Object]bool{}
	ast.Inspect(f.Body, func(n ast.Node) bool {
		if _, ok := n.(*ast.FuncLit); ok {
			return false
		}
		if rs, ok := n.(*ast.ReturnStmt); ok {
			for _, r := range rs.Results {
				x := ast.Unparen(r)
				if u, ok := x.(*ast.UnaryExpr); ok && u.Op == token.AND {
					x = ast.Unparen(u.X)
				}
				if id, ok := x.(*ast.Ident); ok {
					if o := info.Uses[id]; o != nil && !srcs[o] {
						results[o] = true
					}
				}
			}
		}
		return true
	})
	ast.Inspect(f.Body, func(n ast.Node) bool {
		as, ok := n.(*ast.AssignStmt)
		if !ok || shared != "" || len(as.Lhs) != len(as.Rhs) {
			return true
		}
		for i, l := range as.Lhs {
			if _, isId := ast.Unparen(l).(*ast.Ident); isId {
				continue
			}
			// root of the target
			root := ast.Unparen(l)
			for {
				switch x := root.(type) {
				case *ast.SelectorExpr:
					root = ast.Unparen(x.X)
					continue
				case *ast.IndexExpr:
					root = ast.Unparen(x.X)
					continue
				case *ast.StarExpr:
					root = ast.Unparen(x.X)
					continue
				}
				break
			}
			rid, ok := root.(*ast.Ident)
			if !ok || !results[info.Uses[rid]] {
				continue
			}
			tv, ok := info.Types[as.Rhs[i]]
			if !ok || !refKindType(tv.Type) {
				continue
			}
			if _, isIdx := ast.Unparen(l).(*ast.IndexExpr); !isIdx {
				continue // field stores are decided by the field rule below
			}
			if ok, why := isFresh(as.Rhs[i], 0); !ok {
				shared, sharedPos = "stores "+why+" into the result ("+types.ExprString(l)+")", as.Pos()
			}
		}
		return true
	})
	if shared != "" {
		return shared, sharedPos
	}
	// 2. shallow struct copy r := *src / r = *src : every reference-kind field must be re-assigned with a fresh value
	var copies []struct {
		local types.Object
		pos   token.Pos
	}
	ast.Inspect(f.Body, func(n ast.Node) bool {
		as, ok := n.(*ast.AssignStmt)
		if !ok {
			return true
		}
		for i, r := range as.Rhs {
			if i >= len(as.Lhs) {
				break
			}
			st, ok := ast.Unparen(r).(*ast.StarExpr)
			isCopy := ok && mentionsSrc(st.X)
			// value receiver copied: r := obj
			if id, ok2 := ast.Unparen(r).(*ast.Ident); ok2 && srcs[info.Uses[id]] {
				if tv, ok3 := info.Types[r]; ok3 {
					if _, isStruct := tv.Type.Underlying().(*types.Struct); isStruct {
						isCopy = true
					}
				}
			}
			if !isCopy {
				continue
			}
			if id, ok := as.Lhs[i].(*ast.Ident); ok {
				o := info.Defs[id]
				if o == nil {
					o = info.Uses[id]
				}
				copies = append(copies, struct {
					local types.Object
					pos   token.Pos
				}{o, as.Pos()})
			}
		}
		return true
	})
	for _, cp := range copies {
		st, ok := cp.local.Type().Underlying().(*types.Struct)
		if !ok {
			continue
		}
		for i := 0; i < st.NumFields(); i++ {
			fld := st.Field(i)
			if !refKindType(fld.Type()) {
				continue
			}
			// find a later assignment local.fld = fresh
			reassigned := false
			why := ""
			ast.Inspect(f.Body, func(n ast.Node) bool {
				as, ok := n.(*ast.AssignStmt)
				if !ok || as.Pos() < cp.pos {
					return true
				}
				for j, l := range as.Lhs {
					if s, ok := l.(*ast.SelectorExpr); ok && s.Sel.Name == fld.Name() {
						if id, ok := s.X.(*ast.Ident); ok && info.Uses[id] == cp.local && j < len(as.Rhs) {
							if ok2, w := isFresh(as.Rhs[j], 0); ok2 {
								reassigned = true
							} else {
								why = w
							}
						}
					}
				}
				return true
			})
			if !reassigned && cloneShareOK != nil && cloneShareOK(fld.Type()) {
				continue
			}
			if !reassigned {
				owner := namedOfType(cp.local.Type())
				if w := structFieldMutable(fld.Type()); w != "" && mutableFields[owner+"."+fld.Name()] == "" {
					mutableFields[owner+"."+fld.Name()] = w
				}
				if _, mut := mutableFields[owner+"."+fld.Name()]; !mut {
					continue // nothing in the library writes through this field after construction
				}
				if nestedReassigned(info, f.Body, cp.local, fld, isFresh) {
					continue
				}
				if why2, ok := reviewedSharedFields[owner+"."+fld.Name()]; ok {
					if fld.Name() == "data" || initBeforeExecute(c, f.Pkg, fld.Name()) {
						_ = why2
						continue
					}
				}
				return fmt.Sprintf("the result starts as a shallow copy of the source and its field %s (%s; may be written through, e.g. at %s) is not replaced by a fresh value%s: both objects share it", fld.Name(), fld.Type(), mutableFields[owner+"."+fld.Name()], func() string {
					if why != "" {
						return " (assigned " + why + ")"
					}
					return ""
				}()), cp.pos
			}
		}
	}
	// 3. element stores into the result from the source without Clone: result[i] = src[i] with pointer elements
	msg := ""
	var mpos token.Pos
	ast.Inspect(f.Body, func(n ast.Node) bool {
		as, ok := n.(*ast.AssignStmt)
		if !ok || msg != "" {
			return true
		}
		for i, l := range as.Lhs {
			var base ast.Expr
			switch lv := ast.Unparen(l).(type) {
			case *ast.IndexExpr:
				base = lv.X
			case *ast.SelectorExpr:
				base = lv.X
			}
			if base == nil || i >= len(as.Rhs) || len(as.Rhs) != len(as.Lhs) || mentionsSrc(base) {
				continue
			}
			if tv, ok := info.Types[l]; ok && refKindType(tv.Type) {
				if ok2, why := isFresh(as.Rhs[i], 0); !ok2 {
					msg, mpos = "store "+types.ExprString(l)+" = "+why+": the result shares it with the source", l.Pos()
				}
			}
		}
		return true
	})
	return msg, mpos
}

func refKindType(t types.Type) bool {
	switch u := t.Underlying().(type) {
	case *types.Pointer, *types.Slice, *types.Map, *types.Chan:
		return true
	case *types.Interface:
		return true
	case *types.Signature:
		return false
	case *types.Struct:
		for i := 0; i < u.NumFields(); i++ {
			if refKindType(u.Field(i).Type()) {
				return true
			}
		}
	case *types.Array:
		return refKindType(u.Elem())
	}
	return false
}

// fieldOfSource: for an expression src.f... returns the first field selected on the source and the source's type name.
func fieldOfSource(info *types.Info, e ast.Expr) (string, string) {
	last := ""
	owner := ""
	for {
		switch v := ast.Unparen(e).(type) {
		case *ast.SelectorExpr:
			last = v.Sel.Name
			if tv, ok := info.Types[v.X]; ok {
				owner = namedOfType(tv.Type)
			}
			e = v.X
		case *ast.IndexExpr:
			e = v.X
		case *ast.SliceExpr:
			e = v.X
		case *ast.StarExpr:
			e = v.X
		default:
			return last, owner
		}
	}
}

// nestedReassigned: every reference-kind field of the (embedded) struct field fld of local is re-assigned with a fresh value.
func nestedReassigned(info *types.Info, body ast.Node, local types.Object, fld *types.Var, isFresh func(ast.Expr, int) (bool, string)) bool {
	st, ok := fld.Type().Underlying().(*types.Struct)
	if !ok {
		return false
	}
	for i := 0; i < st.NumFields(); i++ {
		sub := st.Field(i)
		if !refKindType(sub.Type()) {
			continue
		}
		found := false
		ast.Inspect(body, func(n ast.Node) bool {
			as, ok := n.(*ast.AssignStmt)
			if !ok {
				return true
			}
			for j, l := range as.Lhs {
				s2, ok := l.(*ast.SelectorExpr)
				if !ok || s2.Sel.Name != sub.Name() || j >= len(as.Rhs) {
					continue
				}
				// local.fld.sub or local.sub (promoted)
				base := ast.Unparen(s2.X)
				if s1, ok := base.(*ast.SelectorExpr); ok && s1.Sel.Name == fld.Name() {
					base = ast.Unparen(s1.X)
				}
				if id, ok := base.(*ast.Ident); ok && info.Uses[id] == local {
					if ok2, _ := isFresh(as.Rhs[j], 0); ok2 {
						found = true
					}
				}
			}
			return true
		})
		if !found {
			return false
		}
	}
	return true
}

// reviewedSharedFields: fields a clone shares with its source although something writes through them, with the
// reason the sharing is unobservable. Each entry is backed by a structural condition checked on every run.
var reviewedSharedFields = map[string]string{
	// estimators reference the caller's data set (SetData semantics); the cached evaluation inside the data set is
	// recomputed by EvaluateLogPdf at the start of every estimation step before it is read
	"HmmEstimator.data": "shared data set, re-evaluated before use", "MixtureEstimator.data": "shared data set, re-evaluated before use", "ShapeHmmEstimator.data": "shared data set, re-evaluated before use",
	// Workers, Indices and rand are scratch state of one Estimate call: Initialize re-creates all three before Execute reads them.
	"LogisticRegression.sagaLogisticRegressionL1": "scratch state re-created by Initialize before every Execute",
}

// initBeforeExecute: in the package, every call x.<field>.Execute(...) is preceded in the same block by x.<field>.Initialize(...).
func initBeforeExecute(c *core.Ctx, p *packages.Package, field string) bool {
	ok := true
	seen := 0
	for _, file := range p.Syntax {
		ast.Inspect(file, func(n ast.Node) bool {
			blk, isBlk := n.(*ast.CaseClause)
			var list []ast.Stmt
			if isBlk {
				list = blk.Body
			} else if b, isB := n.(*ast.BlockStmt); isB {
				list = b.List
			} else {
				return true
			}
			inited := false
			for _, st := range list {
				ast.Inspect(st, func(m ast.Node) bool {
					call, isCall := m.(*ast.CallExpr)
					if !isCall {
						return true
					}
					sel, isSel := call.Fun.(*ast.SelectorExpr)
					if !isSel {
						return true
					}
					inner, isInner := ast.Unparen(sel.X).(*ast.SelectorExpr)
					if !isInner || inner.Sel.Name != field {
						return true
					}
					switch sel.Sel.Name {
					case "Initialize":
						inited = true
					case "Execute":
						seen++
						if !inited {
							ok = false
						}
					}
					return true
				})
			}
			return true
		})
	}
	return ok && seen > 0
}

// observableWrites drops writes into memo fields that no method exposes: the SparseConst vectors fill idxmap (index ->
// position) on first random access; the map is a function of the immutable indices slice, so its creation is not an
// observable change of the operand (it is a shared-state write for concurrency purposes: see C17).
func observableWrites(ws []eff.Write) []eff.Write {
	var r []eff.Write
	for _, w := range ws {
		memo := w.Field == "idxmap"
		if n := len(w.Via); n > 0 && strings.Contains(w.Via[n-1], "SparseConst") && strings.HasSuffix(w.Via[n-1], ".CreateIndex") {
			memo = true
		}
		if !memo {
			r = append(r, w)
		}
	}
	return r
}

var localROBusy = map[types.Object]bool{}

// localReadOnly: every use of the local variable o inside body is a read-only use.
func localReadOnly(info *types.Info, constM map[string]bool, body ast.Node, o types.Object) bool {
	if localROBusy[o] {
		return true
	}
	localROBusy[o] = true
	defer delete(localROBusy, o)
	ok := true
	var stack []ast.Node
	ast.Inspect(body, func(n ast.Node) bool {
		if n == nil {
			stack = stack[:len(stack)-1]
			return true
		}
		stack = append(stack, n)
		if id, isId := n.(*ast.Ident); isId && info.Uses[id] == o && ok {
			if !readOnlyUse(info, constM, stack, len(stack)-1) {
				ok = false
			}
		}
		return true
	})
	return ok
}

// reboundBefore: the selector stack[i] (x.f) is re-bound (x.f = make(...) / fresh) by a top-level statement of the
// enclosing function before this use, so the store goes to storage created in this call.
func reboundBefore(info *types.Info, stack []ast.Node, i int) bool {
	sel, ok := stack[i].(*ast.SelectorExpr)
	if !ok {
		return false
	}
	base, ok := ast.Unparen(sel.X).(*ast.Ident)
	if !ok {
		return false
	}
	for j := i - 1; j >= 0; j-- {
		// any enclosing block: an earlier statement of an enclosing block dominates this use
		var list []ast.Stmt
		switch b := stack[j].(type) {
		case *ast.BlockStmt:
			list = b.List
		case *ast.CaseClause:
			list = b.Body
		case *ast.FuncDecl:
			return false
		default:
			continue
		}
		for _, st := range list {
			as, ok := st.(*ast.AssignStmt)
			if !ok || as.Pos() >= sel.Pos() || len(as.Lhs) != len(as.Rhs) {
				continue
			}
			for k, l := range as.Lhs {
				if s2, ok := ast.Unparen(l).(*ast.SelectorExpr); ok && s2.Sel.Name == sel.Sel.Name {
					if b2, ok := ast.Unparen(s2.X).(*ast.Ident); ok && info.Uses[b2] == info.Uses[base] {
						if call, ok := as.Rhs[k].(*ast.CallExpr); ok {
							if id, ok := call.Fun.(*ast.Ident); ok && (id.Name == "make" || id.Name == "new") {
								return true
							}
						}
					}
				}
			}
		}
	}
	return false
}

// structFieldMutable: t is a named struct (an embedded index, a nested state struct) one of whose own fields is mutable;
// returns where.
func structFieldMutable(t types.Type) string {
	n := namedOfType(t)
	st, ok := t.Underlying().(*types.Struct)
	if n == "" || !ok {
		return ""
	}
	for i := 0; i < st.NumFields(); i++ {
		if w, ok := mutableFields[n+"."+st.Field(i).Name()]; ok {
			return w
		}
	}
	return ""
}

// constStratumMethods: the methods of scalar/vector/matrix types whose name belongs to the const interface strata
// (ConstScalar, ConstVector, ConstMatrix and the const iterators), i.e. what read-only users call.
func constStratumMethods(c *core.Ctx, e *eff.Engine) []*eff.Func {
	constNames := map[string]bool{}
	for _, p := range c.LibPkgs() {
		if p.PkgPath != core.RootPkg {
			continue
		}
		for _, n := range []string{"ConstScalar", "ConstVector", "ConstMatrix", "VectorConstIterator", "MatrixConstIterator"} {
			if o := p.Types.Scope().Lookup(n); o != nil {
				if it, ok := o.Type().Underlying().(*types.Interface); ok {
					for i := 0; i < it.NumMethods(); i++ {
						constNames[it.Method(i).Name()] = true
					}
				}
			}
		}
	}
	// iterator stepping legitimately advances the iterator itself
	for _, n := range []string{"Next", "MarshalJSON"} {
		delete(constNames, n)
	}
	var r []*eff.Func
	for _, f := range e.All {
		if f.Decl == nil || f.Decl.Recv == nil || f.Pkg.PkgPath != core.RootPkg || !constNames[f.Decl.Name.Name] {
			continue
		}
		T := core.RecvTypeName(f.Decl)
		if !(strings.Contains(T, "Vector") || strings.Contains(T, "Matrix") || isScalarTypeName(T)) || strings.Contains(T, "Iterator") && f.Decl.Name.Name != "GetConst" && f.Decl.Name.Name != "Ok" && f.Decl.Name.Name != "Index" {
			continue
		}
		r = append(r, f)
	}
	return r
}
