package checks

import (
	"fmt"
	"go/ast"
	"go/token"
	"go/types"
	"math/big"
	"strings"

	"verif/internal/core"
	"verif/internal/sym"
	"verif/internal/vn"
)

// checkSecantEquation (C07.R5): the quasi-Newton updates of BFGS are interpreted on generic data of dimension 2 (gradients
// g1, g2, step s, a generic symmetric matrix M1, scratch holding stale values). On the path where the update is made the new
// matrix must be symmetric and satisfy the secant equation: for the inverse-Hessian update H2 (g2 - g1) = s, for the Hessian
// update B2 s = g2 - g1. These two identities are what makes the next direction a quasi-Newton direction.
func checkSecantEquation(c *core.Ctx) {
	c.Rule("C07.R5", "BFGS updates: the updated matrix is symmetric and satisfies the secant equation (H2 y = s for the inverse update, B2 s = y for the direct one) as term identities on generic 2x2 data", 2)
	p := c.Pkg("algorithm/bfgs")
	if p == nil {
		c.Unknown("C07.R5", "algorithm/bfgs", "package loaded", token.NoPos, "not loaded")
		return
	}
	d := newDeclIndex(c)
	n := 2
	for _, v := range []struct {
		fn      string
		inverse bool
		hasI    bool
	}{{"bfgs_updateH", true, true}, {"bfgs_updateB", true, false}} {
		fd := findFuncDecl(p, v.fn)
		cons := "algorithm/bfgs." + v.fn
		if fd == nil {
			// the direct update is optional (not used by the driver); the inverse update must exist
			if v.hasI {
				c.Unknown("C07.R5", cons, "function found", token.NoPos, "not found")
			}
			continue
		}
		vec := func(name string) *vn.LocalVec {
			var ts []*sym.Term
			for i := 0; i < n; i++ {
				ts = append(ts, symf("%s_%d", name, i))
			}
			return vn.NewLocalVec(ts...)
		}
		M := func(i, j int) *sym.Term {
			if j > i {
				i, j = j, i
			}
			return symf("m_%d_%d", i, j)
		}
		stale := func(name string) *vn.LocalMat {
			return vn.NewLocalMat(n, n, func(i, j int) *sym.Term { return symf("stale_%s_%d_%d", name, i, j) })
		}
		sc := func(name string) *vn.Loc { return &vn.Loc{Name: name, Val: symf("stale_" + name), Consistent: true} }
		// parameters by position: g1, g2, p2, M1, M2, [I], t1, t2, t3, t4, t5, t6
		params := []vn.Value{vec("g1"), vec("g2"), vec("s"), vn.NewLocalMat(n, n, M), stale("M2")}
		if v.hasI {
			params = append(params, vn.NewLocalMat(n, n, func(i, j int) *sym.Term {
				if i == j {
					return sym.One()
				}
				return sym.Zero()
			}))
		}
		params = append(params, sc("t1"), sc("t2"), vec("stale_t3"), vec("stale_t4"), stale("t5"), stale("t6"))
		nparams := 0
		for _, f := range fd.Type.Params.List {
			nparams += len(f.Names)
		}
		if nparams != len(params) {
			c.Unknown("C07.R5", cons, "signature", fd.Pos(), fmt.Sprintf("the update takes %d parameters, the model binds %d", nparams, len(params)))
			continue
		}
		cfg := vn.Config{Pkg: p, TypeName: "Real64", Spec: distSpec, InlineOps: inlineOps, Decl: d.find, MaxDepth: 8, UnrollConst: true, FiniteSyms: true,
			Borrow: c04Borrow(c.Root), ParamList: params, ParamFresh: true}
		paths, und := vn.Run(cfg, fd)
		if und != nil {
			c.Unknown("C07.R5", cons, "interpreted", und.Pos, v.fn+" left the interpreter's idiom set: "+und.Msg)
			continue
		}
		nUpd := 0
		for _, pa := range paths {
			b, _ := pa.Ret.(*vn.BoolVal)
			if pa.Panic || b == nil || !b.Known || !b.V {
				continue // the update is skipped (s'y = 0)
			}
			nUpd++
			m2, _ := pa.Params[4].(*vn.LocalMat)
			if m2 == nil {
				c.Unknown("C07.R5", cons, "updated matrix", fd.Pos(), "the result matrix is not what the interpreter bound")
				continue
			}
			at := func(i, j int) *sym.Term { return m2.Cell(i, j) }
			bad := ""
			stale := false
			for i := 0; i < n && bad == ""; i++ {
				for j := 0; j < n; j++ {
					t := at(i, j)
					if t == nil {
						bad = fmt.Sprintf("element (%d,%d) of the updated matrix is not set", i, j)
						break
					}
					if !staleFree(t) {
						stale = true
					}
				}
			}
			if bad == "" && stale {
				bad = "the updated matrix depends on what the scratch or result buffers held before the call"
			}
			if bad == "" && !sym.Equal(at(0, 1), at(1, 0)) {
				bad = "the updated matrix is not symmetric: (0,1) = " + clip(at(0, 1).String(), 160) + ", (1,0) = " + clip(at(1, 0).String(), 160)
			}
			if bad == "" {
				y := []*sym.Term{sym.Sub(symf("g2_0"), symf("g1_0")), sym.Sub(symf("g2_1"), symf("g1_1"))}
				s := []*sym.Term{symf("s_0"), symf("s_1")}
				for i := 0; i < n; i++ {
					lhs := sym.Zero()
					for j := 0; j < n; j++ {
						lhs = sym.Add(lhs, sym.Mul(at(i, j), y[j]))
					}
					if !sym.Equal(lhs, s[i]) {
						bad = fmt.Sprintf("the secant equation fails in component %d: (M2 y)_%d = %s, s_%d = %s", i, i, clip(lhs.String(), 200), i, s[i])
						break
					}
				}
			}
			c.Check(bad == "", "C07.R5", cons, "symmetric and M2 (g2 - g1) = s ["+clip(pa.CondString(), 80)+"]", fd.Pos(), bad)
		}
		if nUpd == 0 {
			c.Unknown("C07.R5", cons, "update path", fd.Pos(), "no path returns true (update made)")
		}
	}
}

var _ = ast.Inspect

// checkQuadraticMin (C07.R6): the interpolation step of the line search returns the stationary point of the quadratic q
// with q(a) = fa, q'(a) = fpa, q(b) = fb, that is a - fpa (b-a)^2 / (2 (fb - fa - fpa (b-a))).
func checkQuadraticMin(c *core.Ctx) {
	c.Rule("C07.R6", "line search interpolation: quadraticMin returns the stationary point of the quadratic through (a, fa) with slope fpa and through (b, fb)", 1)
	p := c.Pkg("algorithm/lineSearch")
	cons := "algorithm/lineSearch.quadraticMin"
	if p == nil {
		c.Unknown("C07.R6", cons, "package loaded", token.NoPos, "not loaded")
		return
	}
	fd := findFuncDecl(p, "quadraticMin")
	if fd == nil {
		c.Unknown("C07.R6", cons, "function found", token.NoPos, "the interpolation routine was not found")
		return
	}
	d := newDeclIndex(c)
	cfg := vn.Config{Pkg: p, TypeName: "Real64", Spec: distSpec, InlineOps: inlineOps, Decl: d.find, MaxDepth: 4, FiniteSyms: true,
		ParamSyms: []string{"a", "fa", "fpa", "b", "fb"}}
	paths, und := vn.Run(cfg, fd)
	if und != nil {
		c.Unknown("C07.R6", cons, "interpreted", und.Pos, und.Msg)
		return
	}
	a, fa, fpa, b, fb := sym.Sym("a"), sym.Sym("fa"), sym.Sym("fpa"), sym.Sym("b"), sym.Sym("fb")
	db := sym.Sub(b, a)
	B := sym.Div(sym.Sub(sym.Sub(fb, fa), sym.Mul(fpa, db)), sym.Mul(db, db))
	want := sym.Sub(a, sym.Div(fpa, sym.Mul(sym.Int(2), B)))
	ok := len(paths) == 1
	msg := fmt.Sprintf("%d paths", len(paths))
	if ok {
		rt, _ := paths[0].Ret.(*sym.Term)
		ok = rt != nil && sym.Equal(rt, want)
		if rt != nil {
			msg = "it returns " + clip(rt.String(), 200) + " instead of " + clip(want.String(), 200)
		}
	}
	c.Check(ok, "C07.R6", cons, "stationary point of the interpolating quadratic", fd.Pos(), msg)
}

// checkCallbackState (C07.R7): a function literal that an optimizer hands to the line search or uses as its constraint test
// is called several times per iteration with different step lengths. It must compute from the iteration's data afresh on
// every call: an in-place update of a captured vector or matrix (the receiver is also an operand, e.g. t.VmulS(t, alpha))
// that is not preceded, in the same call, by an assignment that overwrites it makes the second call start from the result
// of the first (newton's constraint test shrank the search direction itself, so the step taken was alpha^2 p).
func checkCallbackState(c *core.Ctx) {
	c.Rule("C07.R7", "callbacks of the optimizers (line-search objective, constraint test) do not update captured vectors or matrices in place across calls", 4)
	n := 0
	ord := map[*ast.FuncDecl]int{}
	for _, p := range c.LibPkgs() {
		if !strings.Contains(p.PkgPath, "/algorithm/") {
			continue
		}
		info := p.TypesInfo
		pkg := p
		core.EachFunc(p, func(_ *ast.File, fd *ast.FuncDecl) {
			ast.Inspect(fd.Body, func(nd ast.Node) bool {
				fl, ok := nd.(*ast.FuncLit)
				if !ok {
					return true
				}
				// only callbacks with a scalar step parameter (alpha) are called repeatedly per iteration
				if fl.Type.Params == nil || len(fl.Type.Params.List) != 1 {
					return true
				}
				pt := info.TypeOf(fl.Type.Params.List[0].Type)
				if pt == nil || !(strings.HasSuffix(namedOfType(pt), "Scalar") || isFloatType(pt)) {
					return true
				}
				n++
				ord[fd]++
				cons := c.FuncName(pkg, fd) + fmt.Sprintf(" step-callback#%d", ord[fd])
				overwritten := map[types.Object]bool{}
				bad := token.NoPos
				badText := ""
				for _, st := range fl.Body.List {
					ast.Inspect(st, func(m ast.Node) bool {
						call, ok := m.(*ast.CallExpr)
						if !ok {
							return true
						}
						sel, ok := call.Fun.(*ast.SelectorExpr)
						if !ok {
							return true
						}
						id, ok := ast.Unparen(sel.X).(*ast.Ident)
						if !ok {
							return true
						}
						o := info.Uses[id]
						if o == nil || (o.Pos() >= fl.Pos() && o.Pos() <= fl.End()) {
							return true // not captured
						}
						tv, ok := info.Types[sel.X]
						if !ok || !(isVectorish(tv.Type) || strings.HasSuffix(namedOfType(tv.Type), "Matrix")) {
							return true
						}
						if !isWriterMethod(sel.Sel.Name) {
							return true
						}
						inplace := false
						for _, a := range call.Args {
							if aid, ok := ast.Unparen(a).(*ast.Ident); ok && info.Uses[aid] == o {
								inplace = true
							}
						}
						if !inplace {
							overwritten[o] = true
							return true
						}
						if !overwritten[o] && bad == token.NoPos {
							bad = call.Pos()
							badText = types.ExprString(call)
						}
						return true
					})
				}
				c.Check(bad == token.NoPos, "C07.R7", cons, "no in-place update of captured state", func() token.Pos {
					if bad != token.NoPos {
						return bad
					}
					return fl.Pos()
				}(), "the callback executes "+badText+" on a captured variable without first overwriting it: every further call of the callback in the same iteration starts from the result of the previous call, so the point that is tested or evaluated is not the point for the step length it was given")
				return true
			})
		})
	}
	c.Analysed["step_callbacks"] = n
}

func isFloatType(t types.Type) bool {
	b, ok := t.Underlying().(*types.Basic)
	return ok && b.Info()&types.IsFloat != 0
}

// isWriterMethod: container methods that write their receiver (arithmetic kernels and Set).
func isWriterMethod(name string) bool {
	if name == "Set" || name == "Reset" {
		return true
	}
	for _, p := range []string{"V", "M"} {
		if strings.HasPrefix(name, p) && len(name) > 3 {
			for _, op := range []string{"add", "sub", "mul", "div", "dot"} {
				if strings.Contains(strings.ToLower(name), op) {
					return true
				}
			}
		}
	}
	return false
}

func fset(c *core.Ctx) *token.FileSet { return c.Fset }

// checkArmijoBeforeAcceptance (C07.R4, second clause): in both phases of the line search a trial step is accepted (returned
// with a nil error under the curvature condition) only on paths where the sufficient-decrease test has already failed to
// reject it: the false edge of the test that mentions c1 dominates the acceptance. Otherwise a flat spot above the Armijo
// line is returned as a step, which violates the first strong Wolfe condition.
func checkArmijoBeforeAcceptance(c *core.Ctx) {
	p := c.Pkg("algorithm/lineSearch")
	if p == nil {
		return
	}
	info := p.TypesInfo
	for _, fname := range []string{"lineSearch", "zoom"} {
		fd := findFuncDecl(p, fname)
		cons := "algorithm/lineSearch." + fname
		if fd == nil {
			continue
		}
		var armijo ast.Expr
		var accept *ast.ReturnStmt
		ast.Inspect(fd.Body, func(n ast.Node) bool {
			is, ok := n.(*ast.IfStmt)
			if !ok {
				return true
			}
			cs := types.ExprString(is.Cond)
			mentions := func(name string) bool {
				found := false
				ast.Inspect(is.Cond, func(m ast.Node) bool {
					if id, ok := m.(*ast.Ident); ok && id.Name == name {
						found = true
					}
					return true
				})
				return found
			}
			_ = cs
			if mentions("c1") && armijo == nil {
				armijo = is.Cond
			}
			if mentions("c2") && len(is.Body.List) == 1 {
				if rs, ok := is.Body.List[0].(*ast.ReturnStmt); ok && len(rs.Results) == 2 {
					if tv, ok := info.Types[rs.Results[1]]; ok && tv.IsNil() {
						accept = rs
					}
				}
			}
			return true
		})
		if armijo == nil || accept == nil {
			c.Unknown("C07.R4", cons, "sufficient decrease is tested before a step is accepted", fd.Pos(), "the sufficient-decrease test (c1) or the acceptance under the curvature condition (c2) was not found")
			continue
		}
		g := core.NewFuncCFG(fd.Body, info)
		_, e := g.CondEdge(armijo)
		ab, _ := g.BlockOf(accept.Pos())
		ok := e != nil && ab != nil && g.Dominates(e, ab)
		c.Check(ok, "C07.R4", cons, "sufficient decrease is tested before a step is accepted", accept.Pos(),
			"the step is accepted under the curvature condition on a path that has not passed the sufficient-decrease test "+types.ExprString(armijo)+" (its false branch does not dominate the acceptance): a trial step on a flat spot above the Armijo line is returned, which violates the first strong Wolfe condition")
	}
}

// C07.R8 — form of the strong Wolfe tests. In lineSearch and zoom the trial value (y, g) := f(alpha) is compared with
// the Armijo line and the curvature bound of the start point: the sufficient-decrease test has the form
// y > P + c1*alpha*Q and the curvature test |g| <= -c2*Q, with alpha the step at which y and g were evaluated and the
// same slope Q in both (terms compared as polynomials; P and Q single variables).
func checkWolfeTerms(c *core.Ctx) {
	c.Rule("C07.R8", "line search: the sufficient-decrease test compares the trial value with P + c1*alpha*Q at the trial step alpha itself, and the curvature test bounds the trial slope by -c2*Q with the same Q", 4)
	p := c.Pkg("algorithm/lineSearch")
	if p == nil {
		c.Unknown("C07.R8", "algorithm/lineSearch", "package loaded", token.NoPos, "not loaded")
		return
	}
	info := p.TypesInfo
	for _, fname := range []string{"lineSearch", "zoom"} {
		fd := findFuncDecl(p, fname)
		cons := "algorithm/lineSearch." + fname
		if fd == nil {
			c.Unknown("C07.R8", cons, "present", token.NoPos, "not found")
			continue
		}
		symOf := map[types.Object]*sym.Term{}
		var toSym func(e ast.Expr) *sym.Term
		toSym = func(e ast.Expr) *sym.Term {
			if tv, ok := info.Types[e]; ok && tv.Value != nil {
				if r, ok := new(big.Rat).SetString(tv.Value.ExactString()); ok {
					return sym.Const(r)
				}
			}
			switch x := ast.Unparen(e).(type) {
			case *ast.Ident:
				o := info.Uses[x]
				if o == nil {
					o = info.Defs[x]
				}
				if o == nil {
					return nil
				}
				if t, ok := symOf[o]; ok {
					return t
				}
				t := sym.Sym(fmt.Sprintf("%s@%d", x.Name, o.Pos()))
				symOf[o] = t
				return t
			case *ast.BinaryExpr:
				a, b := toSym(x.X), toSym(x.Y)
				if a == nil || b == nil {
					return nil
				}
				switch x.Op {
				case token.ADD:
					return sym.Add(a, b)
				case token.SUB:
					return sym.Sub(a, b)
				case token.MUL:
					return sym.Mul(a, b)
				}
			case *ast.UnaryExpr:
				if x.Op == token.SUB {
					if a := toSym(x.X); a != nil {
						return sym.Neg(a)
					}
				}
			}
			return nil
		}
		// the trial evaluation: Y, G, err (:)= f(A) inside the loop
		var yObj, gObj types.Object
		var aExpr ast.Expr
		ast.Inspect(fd.Body, func(n ast.Node) bool {
			fs, ok := n.(*ast.ForStmt)
			if !ok {
				return true
			}
			ast.Inspect(fs.Body, func(m ast.Node) bool {
				as, ok := m.(*ast.AssignStmt)
				if !ok || len(as.Lhs) != 3 || len(as.Rhs) != 1 || yObj != nil {
					return true
				}
				ce, ok := ast.Unparen(as.Rhs[0]).(*ast.CallExpr)
				if !ok || len(ce.Args) != 1 {
					return true
				}
				obj := func(e ast.Expr) types.Object {
					id, ok := e.(*ast.Ident)
					if !ok {
						return nil
					}
					if o := info.Defs[id]; o != nil {
						return o
					}
					return info.Uses[id]
				}
				yObj, gObj, aExpr = obj(as.Lhs[0]), obj(as.Lhs[1]), ce.Args[0]
				return true
			})
			return yObj == nil
		})
		if yObj == nil || gObj == nil {
			c.Unknown("C07.R8", cons, "trial evaluation", fd.Pos(), "no statement of the form y, g, err = f(alpha) found in the loop")
			continue
		}
		A := toSym(aExpr)
		var c1, c2 types.Object
		ast.Inspect(fd.Body, func(n ast.Node) bool {
			if id, ok := n.(*ast.Ident); ok {
				if o := info.Defs[id]; o != nil {
					if id.Name == "c1" {
						c1 = o
					}
					if id.Name == "c2" {
						c2 = o
					}
				}
			}
			return true
		})
		if A == nil || c1 == nil || c2 == nil {
			c.Unknown("C07.R8", cons, "Wolfe constants", fd.Pos(), "constants c1/c2 or the trial step not found")
			continue
		}
		// single-variable terms
		single := func(t *sym.Term) bool {
			for _, q := range symOf {
				if sym.Equal(t, q) {
					return true
				}
			}
			return false
		}
		var slopeArmijo, slopeCurv *sym.Term
		msgA, msgC := "sufficient-decrease test not found", "curvature test not found"
		posA, posC := fd.Pos(), fd.Pos()
		ast.Inspect(fd.Body, func(n ast.Node) bool {
			be, ok := n.(*ast.BinaryExpr)
			if !ok {
				return true
			}
			mentions := func(e ast.Expr, o types.Object) bool {
				f := false
				ast.Inspect(e, func(m ast.Node) bool {
					if id, ok := m.(*ast.Ident); ok && info.Uses[id] == o {
						f = true
					}
					return true
				})
				return f
			}
			switch {
			case be.Op == token.GTR && mentions(be.Y, c1) && slopeArmijo == nil:
				posA = be.Pos()
				if id, ok := ast.Unparen(be.X).(*ast.Ident); !ok || info.Uses[id] != yObj {
					msgA = "the left-hand side of the sufficient-decrease test is not the trial value " + yObj.Name()
					return true
				}
				rhs := toSym(be.Y)
				if rhs == nil {
					msgA = "the Armijo line is not a polynomial in the loop's variables"
					return true
				}
				msgA = "the Armijo line " + types.ExprString(be.Y) + " is not of the form P + c1*" + types.ExprString(aExpr) + "*Q with " + types.ExprString(aExpr) + " the step at which " + yObj.Name() + " was evaluated"
				for o, q := range symOf {
					_ = o
					rest := sym.Sub(rhs, sym.Mul(sym.Mul(symOf[c1], A), q))
					if single(rest) && !sym.Equal(rest, A) && !sym.Equal(q, A) && !sym.Equal(q, symOf[c1]) {
						slopeArmijo = q
						msgA = ""
						break
					}
				}
			case be.Op == token.LEQ && mentions(be.Y, c2) && slopeCurv == nil:
				posC = be.Pos()
				ce, ok := ast.Unparen(be.X).(*ast.CallExpr)
				if !ok || len(ce.Args) != 1 {
					msgC = "the curvature test does not bound |g|"
					return true
				}
				if fn := core.Callee(info, ce); fn == nil || fn.Name() != "Abs" {
					msgC = "the curvature test does not bound |g|"
					return true
				}
				if id, ok := ast.Unparen(ce.Args[0]).(*ast.Ident); !ok || info.Uses[id] != gObj {
					msgC = "the curvature test bounds something other than the trial slope " + gObj.Name()
					return true
				}
				rhs := toSym(be.Y)
				if rhs == nil {
					msgC = "the curvature bound is not a polynomial"
					return true
				}
				msgC = "the curvature bound " + types.ExprString(be.Y) + " is not -c2*Q"
				for _, q := range symOf {
					if sym.Equal(rhs, sym.Neg(sym.Mul(symOf[c2], q))) {
						slopeCurv = q
						msgC = ""
						break
					}
				}
			}
			return true
		})
		c.Check(msgA == "", "C07.R8", cons, "sufficient-decrease test", posA, msgA)
		if msgA == "" && msgC == "" && !sym.Equal(slopeArmijo, slopeCurv) {
			msgC = "the curvature test uses a different start slope than the sufficient-decrease test"
		}
		c.Check(msgC == "", "C07.R8", cons, "curvature test", posC, msgC)
	}
}

// C07.R9 — the step measure of the SAGA stopping rule. EvalStopping walks the two iterates jointly; the quantity it
// accumulates as "change" has to be the modulus of the difference of the two coordinates (a maximum over |v2 - v1|), not
// a difference of moduli, which vanishes for coordinates that shrink.
func checkStepMeasure(c *core.Ctx) {
	c.Rule("C07.R9", "SAGA stopping rule: every accumulated quantity that reads the previous iterate's coordinate is max(., |v2 - v1|) of the two coordinates", 1)
	p := c.Pkg("algorithm/saga")
	if p == nil {
		c.Unknown("C07.R9", "algorithm/saga", "package loaded", token.NoPos, "not loaded")
		return
	}
	info := p.TypesInfo
	fd := findFuncDecl(p, "EvalStopping")
	cons := "algorithm/saga.EvalStopping"
	if fd == nil {
		c.Unknown("C07.R9", cons, "present", token.NoPos, "not found")
		return
	}
	// s1, s2 := it.Get(); v_k = s_k.GetFloat64()
	var s [2]types.Object
	ast.Inspect(fd.Body, func(n ast.Node) bool {
		as, ok := n.(*ast.AssignStmt)
		if !ok || len(as.Lhs) != 2 || len(as.Rhs) != 1 {
			return true
		}
		ce, ok := ast.Unparen(as.Rhs[0]).(*ast.CallExpr)
		if !ok {
			return true
		}
		if sel, ok := ast.Unparen(ce.Fun).(*ast.SelectorExpr); ok && (sel.Sel.Name == "Get" || sel.Sel.Name == "GET" || sel.Sel.Name == "GetConst") {
			for k := 0; k < 2; k++ {
				if id, ok := as.Lhs[k].(*ast.Ident); ok {
					s[k] = info.Defs[id]
				}
			}
		}
		return true
	})
	var v [2]types.Object
	ast.Inspect(fd.Body, func(n ast.Node) bool {
		as, ok := n.(*ast.AssignStmt)
		if !ok || len(as.Lhs) != 1 || len(as.Rhs) != 1 {
			return true
		}
		ce, ok := ast.Unparen(as.Rhs[0]).(*ast.CallExpr)
		if !ok {
			return true
		}
		sel, ok := ast.Unparen(ce.Fun).(*ast.SelectorExpr)
		if !ok || !strings.HasPrefix(sel.Sel.Name, "GetFloat") {
			return true
		}
		rid, ok := ast.Unparen(sel.X).(*ast.Ident)
		lid, ok2 := as.Lhs[0].(*ast.Ident)
		if !ok || !ok2 {
			return true
		}
		for k := 0; k < 2; k++ {
			if s[k] != nil && info.Uses[rid] == s[k] {
				v[k] = info.Uses[lid]
				if v[k] == nil {
					v[k] = info.Defs[lid]
				}
			}
		}
		return true
	})
	if v[0] == nil || v[1] == nil {
		c.Unknown("C07.R9", cons, "coordinates of the two iterates", fd.Pos(), "the values v1, v2 read from the joint iterator were not found")
		return
	}
	// locals defined once by := are expanded (d := v2 - v1; math.Abs(d))
	defs := map[types.Object]ast.Expr{}
	ast.Inspect(fd.Body, func(nd ast.Node) bool {
		if as, ok := nd.(*ast.AssignStmt); ok && as.Tok == token.DEFINE && len(as.Lhs) == len(as.Rhs) {
			for i, l := range as.Lhs {
				if id, ok := l.(*ast.Ident); ok {
					if o := info.Defs[id]; o != nil && o != v[0] && o != v[1] {
						if _, isLit := ast.Unparen(as.Rhs[i]).(*ast.BasicLit); !isLit {
							defs[o] = as.Rhs[i]
						}
					}
				}
			}
		}
		return true
	})
	var render func(e ast.Expr, depth int) string
	render = func(e ast.Expr, depth int) string {
		switch x := ast.Unparen(e).(type) {
		case *ast.Ident:
			o := info.Uses[x]
			if o == v[0] {
				return "V1"
			}
			if o == v[1] {
				return "V2"
			}
			if d, ok := defs[o]; ok && depth < 4 {
				return render(d, depth+1)
			}
			return x.Name
		case *ast.BinaryExpr:
			return render(x.X, depth) + x.Op.String() + render(x.Y, depth)
		case *ast.UnaryExpr:
			return x.Op.String() + render(x.X, depth)
		case *ast.CallExpr:
			name := types.ExprString(x.Fun)
			if fn := core.Callee(info, x); fn != nil {
				name = fn.Name()
			}
			var as []string
			for _, a := range x.Args {
				as = append(as, render(a, depth))
			}
			return name + "{" + strings.Join(as, ",") + "}"
		}
		return types.ExprString(e)
	}
	n := 0
	ast.Inspect(fd.Body, func(nd ast.Node) bool {
		as, ok := nd.(*ast.AssignStmt)
		if !ok || as.Tok != token.ASSIGN || len(as.Lhs) != 1 || len(as.Rhs) != 1 {
			return true
		}
		lid, ok := as.Lhs[0].(*ast.Ident)
		if !ok {
			return true
		}
		r := render(as.Rhs[0], 0)
		if !strings.Contains(r, "V1") {
			return true
		}
		if o := info.Uses[lid]; o == v[0] || o == v[1] {
			return true
		}
		n++
		X := lid.Name
		good := false
		for _, d := range []string{"Abs{V2-V1}", "Abs{V1-V2}"} {
			if r == d || r == "Max{"+X+","+d+"}" || r == "Max{"+d+","+X+"}" {
				good = true
			}
		}
		c.Check(good, "C07.R9", cons, "accumulation "+types.ExprString(as.Lhs[0]), as.Pos(),
			"the change between the iterates is accumulated as "+types.ExprString(as.Rhs[0])+", not as the maximum of |v2 - v1|: a step that shrinks coordinates is measured as zero and the run stops far from the minimiser")
		return true
	})
	if n == 0 {
		c.Fail("C07.R9", cons, "accumulation", fd.Pos(), "no quantity reads the previous iterate: the stopping rule cannot measure the step")
	}
}

// C07.R10 — constraints of the line search. The bracketing phase doubles the step between evaluations, so the user's
// constraint has to be consulted in every iteration: each evaluation f(alpha) inside the bracketing loop is preceded,
// in the same iteration, by a test `constraints(alpha)` of the same step variable (the loop that halves the step until
// it is admissible). A test hoisted out of the loop covers the first step only.
func checkLineSearchConstraints(c *core.Ctx) {
	c.Rule("C07.R10", "line search: every evaluation of a trial step inside the bracketing loop is preceded in the same iteration by the constraint test of that step", 1)
	p := c.Pkg("algorithm/lineSearch")
	if p == nil {
		c.Unknown("C07.R10", "algorithm/lineSearch", "package loaded", token.NoPos, "not loaded")
		return
	}
	info := p.TypesInfo
	fd := findFuncDecl(p, "lineSearch")
	cons := "algorithm/lineSearch.lineSearch"
	if fd == nil {
		c.Unknown("C07.R10", cons, "present", token.NoPos, "not found")
		return
	}
	// parameters of function type: the objective (three results) and the constraint (bool result)
	var objective, constraint types.Object
	for _, f := range fd.Type.Params.List {
		for _, n := range f.Names {
			o := info.Defs[n]
			if sig, ok := o.Type().Underlying().(*types.Signature); ok {
				switch {
				case sig.Results().Len() == 3:
					objective = o
				case sig.Results().Len() == 1:
					if b, ok := sig.Results().At(0).Type().Underlying().(*types.Basic); ok && b.Kind() == types.Bool {
						constraint = o
					}
				}
			}
		}
	}
	if objective == nil || constraint == nil {
		c.Unknown("C07.R10", cons, "objective and constraint parameters", fd.Pos(), "not found")
		return
	}
	n := 0
	ast.Inspect(fd.Body, func(nd ast.Node) bool {
		loop, ok := nd.(*ast.ForStmt)
		if !ok {
			return true
		}
		for i, st := range loop.Body.List {
			// a statement (not a nested loop) that evaluates the objective
			if _, isLoop := st.(*ast.ForStmt); isLoop {
				continue
			}
			var arg types.Object
			var pos token.Pos
			ast.Inspect(st, func(m ast.Node) bool {
				if ce, ok := m.(*ast.CallExpr); ok && len(ce.Args) == 1 {
					if id, ok := ast.Unparen(ce.Fun).(*ast.Ident); ok && info.Uses[id] == objective {
						if a, ok := ast.Unparen(ce.Args[0]).(*ast.Ident); ok {
							arg, pos = info.Uses[a], ce.Pos()
						}
					}
				}
				return true
			})
			if arg == nil {
				continue
			}
			n++
			tested := false
			for _, prev := range loop.Body.List[:i] {
				ast.Inspect(prev, func(m ast.Node) bool {
					if ce, ok := m.(*ast.CallExpr); ok && len(ce.Args) == 1 {
						if id, ok := ast.Unparen(ce.Fun).(*ast.Ident); ok && info.Uses[id] == constraint {
							if a, ok := ast.Unparen(ce.Args[0]).(*ast.Ident); ok && info.Uses[a] == arg {
								tested = true
							}
						}
					}
					return true
				})
			}
			c.Check(tested, "C07.R10", cons, "trial step tested against the constraints before it is evaluated", pos,
				"the bracketing loop evaluates the objective at "+arg.Name()+" without testing the constraints on it in the same iteration: enlarged steps are never checked and an inadmissible step can be returned with a nil error")
		}
		return true
	})
	if n == 0 {
		c.Unknown("C07.R10", cons, "evaluation inside the bracketing loop", fd.Pos(), "no evaluation of the objective inside a loop found")
	}
}
