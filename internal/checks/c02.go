package checks

import (
	"fmt"
	"go/ast"
	"go/token"
	"go/types"
	"sort"
	"strings"

	"golang.org/x/tools/go/packages"

	"verif/internal/core"
	"verif/internal/sym"
	"verif/internal/vn"
)

func init() { Registry["C02"] = checkC02 }

var mutableTypes = []string{"Real32", "Real64", "Float32", "Float64", "Int", "Int8", "Int16", "Int32", "Int64"}
var allScalarTypes = append(append([]string{}, mutableTypes...), constTypes...)

// own getter of each scalar type (the receiver's representation)
var ownGetter = map[string]string{
	"Real32": "GetFloat32", "Float32": "GetFloat32", "ConstFloat32": "GetFloat32",
	"Real64": "GetFloat64", "Float64": "GetFloat64", "ConstFloat64": "GetFloat64",
	"Int": "GetInt", "ConstInt": "GetInt", "Int8": "GetInt8", "ConstInt8": "GetInt8", "Int16": "GetInt16", "ConstInt16": "GetInt16",
	"Int32": "GetInt32", "ConstInt32": "GetInt32", "Int64": "GetInt64", "ConstInt64": "GetInt64",
}

// operation methods of the Scalar interface that have a definition (value functions)
var opMethodNames = []string{"Neg", "Add", "Sub", "Mul", "Div", "Pow", "Sqrt", "Sin", "Sinh", "Cos", "Cosh", "Tan", "Tanh", "Exp", "Log", "Log1p",
	"Erf", "Erfc", "LogErfc", "Gamma", "Lgamma", "Mlgamma", "GammaP", "BesselI", "LogBesselI",
	"Min", "Max", "Abs", "LogAdd", "LogSub", "Log1pExp", "Sigmoid", "Logistic", "SmoothMax", "LogSmoothMax", "Vmean", "VdotV", "Vnorm", "Mnorm", "Mtrace"}

func recvStar(pkg *packages.Package, T string) string {
	// pointer receiver for magic types, value receiver otherwise
	for _, m := range magicTypes {
		if m == T {
			return "(*" + T + ")"
		}
	}
	return "(" + T + ")"
}

// pathSummary renders the (conditions => value) summary of an operation for sibling comparison.
func pathSummary(paths []*vn.Path, val func(p *vn.Path) string) string {
	var s []string
	for _, p := range paths {
		var cs []string
		for _, c := range p.Conds {
			if strings.Contains(c.C.String(), "order(") {
				continue // which operands carry derivatives does not change the value
			}
			cs = append(cs, c.String())
		}
		if p.Panic {
			s = append(s, strings.Join(cs, " && ")+" => panic")
		} else {
			s = append(s, strings.Join(cs, " && ")+" => "+val(p))
		}
	}
	sort.Strings(s)
	var u []string
	for i, x := range s {
		if i == 0 || x != s[i-1] {
			u = append(u, x)
		}
	}
	return strings.Join(u, " ; ")
}

func boolString(b *vn.BoolVal) string {
	if b == nil {
		return "?"
	}
	if b.Known {
		return fmt.Sprint(b.V)
	}
	switch b.Op {
	case "not":
		return "!(" + boolString(b.L) + ")"
	case "and":
		return "(" + boolString(b.L) + " && " + boolString(b.R) + ")"
	case "or":
		return "(" + boolString(b.L) + " || " + boolString(b.R) + ")"
	}
	return b.C.String()
}

func retString(v vn.Value) string {
	switch t := v.(type) {
	case *sym.Term:
		return t.String()
	case *vn.BoolVal:
		return boolString(t)
	case *vn.Loc:
		return "loc:" + t.Val.String()
	case nil:
		return "nil"
	}
	return fmt.Sprintf("%T", v)
}

func checkC02(c *core.Ctx) error {
	if err := c.Load(packages.LoadSyntax); err != nil {
		return err
	}
	c.Explanation = "Every operation method of every mutable scalar type is interpreted over symbolic terms (engine E3) on all its paths; the receiver's final value is compared with the definition " +
		"of the operation it is named as (definition table in the checker, E2 normal-form equality; piecewise operations by guard-aware acceptance). Siblings (the same method on all 9 mutable / 16 scalar types) " +
		"must have identical (guards => value) summaries. Conversions, registries, comparison operators and integer ring operations are decided structurally. Not decided: rounding, special values, approximant thresholds." +
		" (R8) Erfc, Log1p and LogErfc must obtain their value from the dedicated numerically stable primitive; Min/Max/Greater/Smaller must not delegate the order to an operand of another dynamic type."
	c.Rule("C02.R1", "value of each operation method equals the function it is named as (primitives and composites/reductions), on every path", 300)
	c.Rule("C02.R2", "sibling agreement: the (guards => value) summary of each operation is identical on all scalar types that implement it", 40)
	c.Rule("C02.R4", "Convert*Scalar returns the receiver only for its own type and otherwise the object constructed for the requested type", 30)
	c.Rule("C02.R5", "scalar registries: each New*Scalar reads the registry its Register* writes; every scalar type registers itself in the registries of the interfaces it implements", 20)
	c.Rule("C02.R6", "Greater is >, Smaller is <, Sign tests <0 and >0 on the receiver, in the receiver's own representation", 48)
	c.Rule("C02.R7", "ring operations and comparisons read operands with the getter of the receiver's own type (integer types use native Go integer arithmetic)", 80)
	pkg := c.Root

	// ---- R1 / R2
	summaries := map[string]map[string]string{} // op -> type -> summary
	for _, T := range mutableTypes {
		for _, name := range opMethodNames {
			fd := core.FindMethod(pkg, T, name)
			cons := recvStar(pkg, T) + "." + name
			if fd == nil {
				c.Unknown("C02.R1", cons, "present", token.NoPos, "operation method not found")
				continue
			}
			paths, und := vn.Run(vn.Config{Pkg: pkg, TypeName: T, Spec: scalarSpec, InlineOps: inlineOps}, fd)
			if und != nil {
				c.Unknown("C02.R1", cons, "interpretation", und.Pos, und.Msg)
				continue
			}
			n := 0
			for _, p := range paths {
				if p.Panic {
					continue
				}
				// paths that return nil (empty matrix) carry no value
				if _, isNil := p.Ret.(vn.NilVal); isNil {
					continue
				}
				detail := "value"
				if len(paths) > 1 {
					detail = "value [" + p.CondString() + "]"
				}
				val := p.Recv.Val
				if s := val.String(); s == "NaN" {
					c.OK("C02.R1", cons, detail+" (domain marker)", fd.Pos(), "")
					continue
				}
				if !p.Recv.Written {
					c.Fail("C02.R1", cons, detail, fd.Pos(), "the receiver is not written on this path")
					continue
				}
				n++
				msg := checkAgainstDef(name, p, val)
				if name == "Div" && strings.HasPrefix(T, "Int") && sym.Equal(val, sym.Fn("idiv", P(0), P(1))) {
					msg = "" // integer types: Go's truncating integer division
				}
				if strings.HasPrefix(msg, "undecided") {
					c.Unknown("C02.R1", cons, detail, fd.Pos(), msg)
				} else {
					c.Check(msg == "", "C02.R1", cons, detail, fd.Pos(), msg+" (value: "+val.String()+")")
				}
			}
			if n == 0 {
				c.Fail("C02.R1", cons, "has a value path", fd.Pos(), "no path produces a value")
			}
			if summaries[name] == nil {
				summaries[name] = map[string]string{}
			}
			summaries[name][T] = pathSummary(paths, func(p *vn.Path) string { return p.Recv.Val.String() })
		}
	}
	// methods of the *_math files without a definition: report so that new operations get a table entry
	known := map[string]bool{}
	for _, n := range opMethodNames {
		known[n] = true
	}
	for _, n := range []string{"Equals", "Greater", "Smaller", "Sign"} {
		known[n] = true
	}
	core.EachFunc(pkg, func(file *ast.File, fd *ast.FuncDecl) {
		fn := c.FileOf(fd.Pos())
		if !strings.HasPrefix(fn, "scalar_") || !strings.HasSuffix(fn, "_math.go") {
			return
		}
		if !known[fd.Name.Name] && ast.IsExported(fd.Name.Name) {
			c.Unknown("C02.R1", c.FuncName(pkg, fd), "definition", fd.Pos(), "operation has no entry in the definition table")
		}
	})
	// comparisons on all 16 types
	cmpSummaries := map[string]map[string]string{}
	for _, T := range allScalarTypes {
		for _, name := range []string{"Equals", "Greater", "Smaller", "Sign"} {
			fd := core.FindMethod(pkg, T, name)
			cons := "(" + T + ")." + name
			if fd == nil {
				c.Unknown("C02.R6", cons, "present", token.NoPos, "method not found")
				continue
			}
			paths, und := vn.Run(vn.Config{Pkg: pkg, TypeName: T, Spec: scalarSpec, InlineOps: inlineOps}, fd)
			if und != nil {
				c.Unknown("C02.R6", cons, "interpretation", und.Pos, und.Msg)
				continue
			}
			if cmpSummaries[name] == nil {
				cmpSummaries[name] = map[string]string{}
			}
			cmpSummaries[name][T] = pathSummary(paths, func(p *vn.Path) string { return retString(p.Ret) })
			r0 := sym.Sym("r0")
			switch name {
			case "Greater", "Smaller":
				want := lt(P(0), r0) // receiver > operand
				if name == "Smaller" {
					want = lt(r0, P(0))
				}
				ok := len(paths) == 1
				if ok {
					b, isB := paths[0].Ret.(*vn.BoolVal)
					ok = isB && !b.Known && b.Op == "" && b.C != nil && b.C.String() == want
				}
				c.Check(ok, "C02.R6", cons, "is the strict order of the values", fd.Pos(), name+" must return "+want+", got "+cmpSummaries[name][T])
			case "Sign":
				bad := ""
				for _, p := range paths {
					rt, ok := p.Ret.(*sym.Term)
					if !ok {
						bad = "non-integer result"
						continue
					}
					k, _ := rt.IsConst()
					neg, k1 := condTruth(p, lt(r0, sym.Zero()))
					pos, k2 := condTruth(p, lt(sym.Zero(), r0))
					switch {
					case k == nil:
						bad = "non-constant result"
					case k1 && neg:
						if k.Num().Int64() != -1 {
							bad = "negative value must give -1"
						}
					case k2 && pos:
						if k.Num().Int64() != 1 {
							bad = "positive value must give 1"
						}
					case k1 && k2 && !neg && !pos:
						if k.Sign() != 0 {
							bad = "zero must give 0"
						}
					default:
						bad = "path " + p.CondString() + " is not decided by tests of the receiver against 0"
					}
				}
				c.Check(bad == "" && len(paths) == 3, "C02.R6", cons, "-1/0/1 by the sign of the receiver", fd.Pos(), bad)
			}
		}
	}
	// R2 sibling agreement
	agree := func(rule, name string, m map[string]string, ref string) {
		refSum, ok := m[ref]
		if !ok {
			c.Unknown(rule, name, "reference summary", token.NoPos, "no summary for reference type "+ref)
			return
		}
		var types_ []string
		for t := range m {
			types_ = append(types_, t)
		}
		sort.Strings(types_)
		for _, t := range types_ {
			if t == ref {
				continue
			}
			refSum := refSum
			if name == "Div" && strings.HasPrefix(t, "Int") {
				// integer division differs from float division by design; integer siblings agree among themselves
				if t == "Int" {
					continue
				}
				refSum = m["Int"]
			}
			fd := core.FindMethod(pkg, t, name)
			pos := token.NoPos
			if fd != nil {
				pos = fd.Pos()
			}
			c.Check(m[t] == refSum, rule, "("+t+")."+name, "same summary as "+ref, pos,
				"differs from its sibling on "+ref+": "+m[t]+"  vs  "+refSum)
		}
	}
	for _, name := range opMethodNames {
		agree("C02.R2", name, summaries[name], "Float64")
	}
	for _, name := range []string{"Equals", "Greater", "Smaller", "Sign"} {
		agree("C02.R2", name, cmpSummaries[name], "Float64")
	}

	checkConversions(c, pkg)
	checkRegistries(c, pkg)
	checkOwnGetters(c, pkg)
	checkStablePrimitives(c, pkg)
	checkNarrowReads(c, pkg)
	checkConstantWidth(c, pkg)
	return nil
}

// R9: no operation of a scalar type reads an operand through a getter that is narrower than the type's own
// representation (a 64-bit type through GetFloat32/GetInt32/16/8, a 32-bit type through GetInt16/8): the value would be
// rounded or truncated before the operation, so equal operands no longer give equal values "up to the precision of the
// storage type".
func checkNarrowReads(c *core.Ctx, pkg *packages.Package) {
	c.Rule("C02.R9", "no operation reads an operand with a getter narrower than the receiver's own representation", 300)
	info := pkg.TypesInfo
	narrow := func(T string) map[string]bool {
		switch T {
		case "Float64", "Real64", "ConstFloat64", "Int64", "Int", "ConstInt64", "ConstInt":
			return map[string]bool{"GetFloat32": true, "GetInt32": true, "GetInt16": true, "GetInt8": true}
		case "Float32", "Real32", "ConstFloat32", "Int32", "ConstInt32":
			return map[string]bool{"GetInt16": true, "GetInt8": true}
		case "Int16", "ConstInt16":
			return map[string]bool{"GetInt8": true}
		}
		return nil
	}
	isT := map[string]bool{}
	for _, T := range allScalarTypes {
		isT[T] = true
	}
	core.EachFunc(pkg, func(_ *ast.File, fd *ast.FuncDecl) {
		if fd.Recv == nil {
			return
		}
		T := core.RecvTypeName(fd)
		if !isT[T] || narrow(T) == nil || strings.HasPrefix(fd.Name.Name, "Get") || strings.HasPrefix(fd.Name.Name, "Convert") || strings.Contains(fd.Name.Name, "JSON") {
			return
		}
		bad := ""
		var pos token.Pos
		n := 0
		ast.Inspect(fd.Body, func(x ast.Node) bool {
			ce, ok := x.(*ast.CallExpr)
			if !ok {
				return true
			}
			fn := core.Callee(info, ce)
			if fn == nil || fn.Type().(*types.Signature).Recv() == nil {
				return true
			}
			if strings.HasPrefix(fn.Name(), "GetFloat") || strings.HasPrefix(fn.Name(), "GetInt") {
				n++
				if narrow(T)[fn.Name()] {
					bad = fn.Name()
					pos = ce.Pos()
				}
			}
			return true
		})
		if n == 0 {
			return
		}
		c.Check(bad == "", "C02.R9", "("+T+")."+fd.Name.Name, "operands read at full width", pos,
			"reads an operand with "+bad+", which is narrower than the representation of "+T+": the operand is rounded or truncated before the operation")
	})
}

// ---------------------------------------------------------------------------
// R8: operations whose defining identity cancels (erfc = 1 - erf, log1p = log(1 + x), log erfc) take their value from the
// dedicated primitive. R1 compares values as real functions, for which 1 - erf(x) IS erfc(x); in the storage type it is
// not: 1 - erf(6) is 0 where erfc(6) is 2e-17, which every storage type represents. The rule is the float-level
// complement of R1 for exactly the functions where the real-number identity hides a total loss of precision.

var stablePrimitive = map[string]string{"erfc": "math.Erfc", "log1p": "math.Log1p", "logerfc": "github.com/pbenner/autodiff/special.LogErfc"}

func checkStablePrimitives(c *core.Ctx, pkg *packages.Package) {
	c.Rule("C02.R8", "Erfc, Log1p and LogErfc obtain their value from the dedicated primitive (math.Erfc, math.Log1p, special.LogErfc), not from the cancelling identity", 30)
	info := pkg.TypesInfo
	for _, T := range allScalarTypes {
		for _, name := range []string{"Erfc", "Log1p", "LogErfc", "ERFC", "LOG1P", "LOGERFC"} {
			fd := core.FindMethod(pkg, T, name)
			if fd == nil {
				continue
			}
			want := stablePrimitive[strings.ToLower(name)]
			found := false
			ast.Inspect(fd.Body, func(x ast.Node) bool {
				if ce, ok := x.(*ast.CallExpr); ok {
					if fn := core.Callee(info, ce); fn != nil && fn.Pkg() != nil && fn.Pkg().Path()+"."+fn.Name() == want {
						found = true
					}
				}
				return true
			})
			c.Check(found, "C02.R8", "("+T+")."+name, "value taken from "+want, fd.Pos(),
				"("+T+")."+name+" never calls "+want+": computing the function through its defining identity (1 - erf, log(1 + x), log(erfc)) loses all significant digits where the operands cancel, so the value is not the named function up to the precision of the storage type")
		}
	}
}

// ---------------------------------------------------------------------------
// R7: getters of the receiver's own representation

func checkOwnGetters(c *core.Ctx, pkg *packages.Package) {
	info := pkg.TypesInfo
	ops := []string{"Neg", "Add", "Sub", "Mul", "Div", "Greater", "Smaller", "Sign", "Min", "Max",
		"NEG", "ADD", "SUB", "MUL", "DIV", "GREATER", "SMALLER", "SIGN", "MIN", "MAX"}
	for _, T := range allScalarTypes {
		for _, name := range ops {
			fd := core.FindMethod(pkg, T, name)
			if fd == nil {
				continue
			}
			cons := "(" + T + ")." + name
			bad := ""
			n := 0
			var pos token.Pos
			ast.Inspect(fd.Body, func(x ast.Node) bool {
				ce, ok := x.(*ast.CallExpr)
				if !ok {
					return true
				}
				fn := core.Callee(info, ce)
				if fn == nil || !strings.HasPrefix(fn.Name(), "Get") || fn.Type().(*types.Signature).Recv() == nil {
					return true
				}
				if strings.HasPrefix(fn.Name(), "GetFloat") || strings.HasPrefix(fn.Name(), "GetInt") {
					n++
					if fn.Name() != ownGetter[T] {
						bad = fn.Name()
						pos = ce.Pos()
					}
				}
				return true
			})
			lname := strings.ToLower(name)
			// an order operation that asks an operand (not the receiver) for the order lets the operand's dynamic type decide
			// it: `a.Smaller(b)` compares in a's representation, not in the receiver's
			if lname == "min" || lname == "max" || lname == "greater" || lname == "smaller" {
				recvName := ""
				if fd.Recv != nil && len(fd.Recv.List) > 0 && len(fd.Recv.List[0].Names) > 0 {
					recvName = fd.Recv.List[0].Names[0].Name
				}
				deleg := ""
				var dpos token.Pos
				ast.Inspect(fd.Body, func(x ast.Node) bool {
					ce, ok := x.(*ast.CallExpr)
					if !ok {
						return true
					}
					sel, ok := ast.Unparen(ce.Fun).(*ast.SelectorExpr)
					if !ok {
						return true
					}
					switch strings.ToLower(sel.Sel.Name) {
					case "greater", "smaller", "sign", "equals", "min", "max":
					default:
						return true
					}
					id, ok := ast.Unparen(sel.X).(*ast.Ident)
					if !ok || id.Name == recvName {
						return true
					}
					if v, isVar := info.Uses[id].(*types.Var); isVar && isScalarOperandType(v.Type(), T) {
						// the receiver of Greater/Smaller is itself an operand of the comparison: x.Greater(y) with x the
						// method's receiver is the own representation; any other scalar variable is an operand
						deleg = id.Name + "." + sel.Sel.Name
						dpos = ce.Pos()
					}
					return true
				})
				if deleg != "" {
					c.Fail("C02.R7", cons, "operands read with "+ownGetter[T], dpos,
						"decides the order by calling "+deleg+": the comparison is carried out in the representation of that operand's dynamic type, not in the receiver's own representation "+ownGetter[T])
					continue
				}
			}
			if n == 0 {
				continue // delegates (Min/Max through Set, Abs through Sign)
			}
			ring := lname == "neg" || lname == "add" || lname == "sub" || lname == "mul" || lname == "div"
			if ring && !strings.HasPrefix(T, "Int") {
				continue // float types may compute in float64 and round on store
			}
			c.Check(bad == "", "C02.R7", cons, "operands read with "+ownGetter[T], pos,
				"reads an operand with "+bad+" instead of the receiver's own representation "+ownGetter[T]+" (integer types would round-trip through another type)")
		}
	}
}

// ---------------------------------------------------------------------------
// R4 conversions

func checkConversions(c *core.Ctx, pkg *packages.Package) {
	info := pkg.TypesInfo
	for _, T := range allScalarTypes {
		for _, name := range []string{"ConvertScalar", "ConvertMagicScalar", "ConvertConstScalar"} {
			fd := core.FindMethod(pkg, T, name)
			if fd == nil {
				continue
			}
			cons := "(" + T + ")." + name
			f := newFnCtx(pkg, fd)
			var tpar types.Object
			if len(f.params) == 1 {
				tpar = f.params[0]
			}
			// 64-bit integer sources: float64 holds 53 bits, so a conversion that reads the value with a floating-point
			// getter changes every value beyond 2^53 and leaves out-of-range narrowing to the float conversion instead of
			// Go's integer conversion
			if T == "Int" || T == "Int64" || T == "ConstInt" || T == "ConstInt64" {
				var fpos token.Pos
				ast.Inspect(fd.Body, func(x ast.Node) bool {
					if ce, ok := x.(*ast.CallExpr); ok {
						if fn := core.Callee(info, ce); fn != nil && strings.HasPrefix(fn.Name(), "GetFloat") {
							if sel, ok := ast.Unparen(ce.Fun).(*ast.SelectorExpr); ok {
								if id, ok := ast.Unparen(sel.X).(*ast.Ident); ok && info.Uses[id] == f.recv {
									fpos = ce.Pos()
								}
							}
						}
					}
					return true
				})
				c.Check(fpos == token.NoPos, "C02.R4", cons, "64-bit integer value is not converted through a floating-point getter", fpos,
					"the conversion reads the 64-bit integer with a floating-point getter: values beyond 2^53 are rounded and out-of-range narrowing follows the float conversion, not Go's integer conversion rules")
			}
			// constructed objects: idents bound to New*/Null*Scalar(t, ...)
			constructed := map[types.Object]bool{}
			isCtor := func(e ast.Expr) bool {
				ce, ok := ast.Unparen(e).(*ast.CallExpr)
				if !ok {
					return false
				}
				fn := core.Callee(info, ce)
				if fn == nil || len(ce.Args) == 0 {
					return false
				}
				switch fn.Name() {
				case "NewScalar", "NullScalar", "NewConstScalar", "NullConstScalar", "NewMagicScalar", "NullMagicScalar":
					id, ok := ast.Unparen(ce.Args[0]).(*ast.Ident)
					return ok && info.Uses[id] == tpar
				}
				return false
			}
			ast.Inspect(fd.Body, func(x ast.Node) bool {
				if as, ok := x.(*ast.AssignStmt); ok && len(as.Lhs) == 1 && len(as.Rhs) == 1 && isCtor(as.Rhs[0]) {
					if id, ok := as.Lhs[0].(*ast.Ident); ok {
						if o := info.Defs[id]; o != nil {
							constructed[o] = true
						} else if o := info.Uses[id]; o != nil {
							constructed[o] = true
						}
					}
				}
				return true
			})
			nret := 0
			ast.Inspect(fd.Body, func(x ast.Node) bool {
				sw, ok := x.(*ast.SwitchStmt)
				if !ok {
					return true
				}
				for _, cs := range sw.Body.List {
					cc := cs.(*ast.CaseClause)
					ownCase := false
					for _, e := range cc.List {
						if id, ok := ast.Unparen(e).(*ast.Ident); ok && id.Name == T+"Type" {
							ownCase = true
						}
					}
					for _, st := range cc.Body {
						ast.Inspect(st, func(y ast.Node) bool {
							rs, ok := y.(*ast.ReturnStmt)
							if !ok || len(rs.Results) != 1 {
								return true
							}
							nret++
							res := ast.Unparen(rs.Results[0])
							detail := "default branch returns the converted object"
							if ownCase {
								detail = "own-type branch"
							}
							if id, ok := res.(*ast.Ident); ok {
								o := info.Uses[id]
								if o == f.recv {
									c.Check(ownCase && len(cc.List) == 1, "C02.R4", cons, detail, rs.Pos(),
										"returns the receiver itself for a requested type other than its own: the result has the wrong type")
									return true
								}
								if constructed[o] {
									// the constructed object must have been Set from the receiver
									set := false
									ast.Inspect(fd.Body, func(z ast.Node) bool {
										if ce, ok := z.(*ast.CallExpr); ok && (calleeName(ce) == "Set" || calleeName(ce) == "SET") && len(ce.Args) == 1 {
											if s, ok := ast.Unparen(ce.Fun).(*ast.SelectorExpr); ok {
												if rid, ok := ast.Unparen(s.X).(*ast.Ident); ok && info.Uses[rid] == o {
													if aid, ok := ast.Unparen(ce.Args[0]).(*ast.Ident); ok && info.Uses[aid] == f.recv {
														set = true
													}
												}
											}
										}
										return true
									})
									c.Check(set, "C02.R4", cons, detail, rs.Pos(), "converted object is returned without being Set from the receiver")
									return true
								}
							}
							if isCtor(res) {
								// NewConstScalar(t, a.GetX())
								ce := res.(*ast.CallExpr)
								ok := len(ce.Args) == 2 && strings.HasPrefix(f.norm(ce.Args[1]), "R.Get")
								c.Check(ok, "C02.R4", cons, detail, rs.Pos(), "constructed scalar does not receive the receiver's value")
								return true
							}
							c.Fail("C02.R4", cons, detail, rs.Pos(), "returns "+types.ExprString(res)+", which is neither the receiver (own type) nor the object constructed for the requested type")
							return true
						})
					}
				}
				return false
			})
			if nret < 2 {
				c.Unknown("C02.R4", cons, "switch over the requested type", fd.Pos(), "conversion does not have the form switch t { case OwnType: ...; default: ... }")
			}
		}
	}
}

// ---------------------------------------------------------------------------
// R5 registries

func checkRegistries(c *core.Ctx, pkg *packages.Package) {
	info := pkg.TypesInfo
	// registry variables: package-level map vars whose name ends in Registry
	regs := map[types.Object]string{}
	for id, o := range info.Defs {
		if v, ok := o.(*types.Var); ok && v.Parent() == pkg.Types.Scope() && strings.HasSuffix(id.Name, "calarRegistry") {
			regs[o] = id.Name
		}
	}
	readers := map[string]map[string]bool{} // registry -> functions reading
	writers := map[string]map[string]bool{}
	core.EachFunc(pkg, func(_ *ast.File, fd *ast.FuncDecl) {
		written := map[*ast.IndexExpr]bool{}
		ast.Inspect(fd.Body, func(x ast.Node) bool {
			if as, ok := x.(*ast.AssignStmt); ok {
				for _, l := range as.Lhs {
					if ix, ok := l.(*ast.IndexExpr); ok {
						if id, ok := ix.X.(*ast.Ident); ok {
							if nm, ok := regs[info.Uses[id]]; ok {
								written[ix] = true
								if writers[nm] == nil {
									writers[nm] = map[string]bool{}
								}
								writers[nm][fd.Name.Name] = true
							}
						}
					}
				}
			}
			return true
		})
		ast.Inspect(fd.Body, func(x ast.Node) bool {
			if ix, ok := x.(*ast.IndexExpr); ok && !written[ix] {
				if id, ok := ix.X.(*ast.Ident); ok {
					if nm, ok := regs[info.Uses[id]]; ok {
						if readers[nm] == nil {
							readers[nm] = map[string]bool{}
						}
						readers[nm][fd.Name.Name] = true
					}
				}
			}
			return true
		})
	})
	fams := []struct{ kind, reg string }{{"Scalar", "scalarRegistry"}, {"ConstScalar", "constScalarRegistry"}, {"MagicScalar", "magicScalarRegistry"}}
	for _, fam := range fams {
		w := writers[fam.reg]["Register"+fam.kind]
		c.Check(w, "C02.R5", "Register"+fam.kind, "writes "+fam.reg, token.NoPos, "Register"+fam.kind+" does not store into "+fam.reg)
		fd := core.FindFunc(pkg, "New"+fam.kind)
		pos := token.NoPos
		if fd != nil {
			pos = fd.Pos()
		}
		r := readers[fam.reg]["New"+fam.kind]
		c.Check(r, "C02.R5", "New"+fam.kind, "reads "+fam.reg, pos, "New"+fam.kind+" does not look the constructor up in "+fam.reg+" (the registry Register"+fam.kind+" fills), so types registered there cannot be constructed")
	}
	// registration calls in init(): type name -> set of Register* called with <T>Type
	registered := map[string]map[string]bool{}
	core.EachFunc(pkg, func(_ *ast.File, fd *ast.FuncDecl) {
		if fd.Name.Name != "init" || fd.Recv != nil {
			return
		}
		ast.Inspect(fd.Body, func(x ast.Node) bool {
			ce, ok := x.(*ast.CallExpr)
			if !ok || len(ce.Args) != 2 {
				return true
			}
			nm := calleeName(ce)
			if !strings.HasPrefix(nm, "Register") || !strings.HasSuffix(nm, "Scalar") {
				return true
			}
			if id, ok := ce.Args[0].(*ast.Ident); ok && strings.HasSuffix(id.Name, "Type") {
				t := strings.TrimSuffix(id.Name, "Type")
				if registered[t] == nil {
					registered[t] = map[string]bool{}
				}
				registered[t][nm] = true
				// the registered constructor must build a scalar of exactly that type
				var lit *ast.FuncLit
				switch a := ast.Unparen(ce.Args[1]).(type) {
				case *ast.FuncLit:
					lit = a
				case *ast.Ident:
					ast.Inspect(fd.Body, func(y ast.Node) bool {
						if as, ok := y.(*ast.AssignStmt); ok && len(as.Lhs) == 1 && len(as.Rhs) == 1 {
							if l, ok := as.Lhs[0].(*ast.Ident); ok && (info.Defs[l] == info.Uses[a] || info.Uses[l] == info.Uses[a]) {
								if fl, ok := as.Rhs[0].(*ast.FuncLit); ok {
									lit = fl
								}
							}
						}
						return true
					})
				}
				cons := nm + "(" + id.Name + ")"
				if lit == nil {
					c.Unknown("C02.R5", cons, "constructor builds the registered type", ce.Pos(), "constructor is not a function literal")
				} else {
					bad := ""
					nret := 0
					ast.Inspect(lit.Body, func(y ast.Node) bool {
						if rs, ok := y.(*ast.ReturnStmt); ok && len(rs.Results) == 1 {
							nret++
							if tv, ok := info.Types[rs.Results[0]]; ok {
								if n := core.NamedOf(tv.Type); n == nil || n.Obj().Name() != t {
									bad = tv.Type.String()
								}
							}
						}
						return true
					})
					c.Check(bad == "" && nret > 0, "C02.R5", cons, "constructor builds the registered type", ce.Pos(),
						"the constructor registered for "+id.Name+" returns a "+bad+": New*Scalar("+id.Name+", v) and conversions to that type yield a scalar of another type")
				}
			}
			return true
		})
	})
	for _, T := range mutableTypes {
		c.Check(registered[T]["RegisterScalar"], "C02.R5", T, "registered as Scalar", token.NoPos, "type "+T+" is not registered with RegisterScalar in an init()")
	}
	for _, T := range constTypes {
		c.Check(registered[T]["RegisterConstScalar"], "C02.R5", T, "registered as ConstScalar", token.NoPos, "type "+T+" is not registered with RegisterConstScalar")
	}
	for _, T := range magicTypes {
		c.Check(registered[T]["RegisterMagicScalar"], "C02.R5", T, "registered as MagicScalar", token.NoPos,
			"type "+T+" implements MagicScalar but never calls RegisterMagicScalar: NewMagicScalar/NullMagicScalar panic for it")
	}
}

// isScalarOperandType: a scalar interface (ConstScalar, Scalar, MagicScalar) or a (pointer to a) concrete scalar type other than own.
func isScalarOperandType(t types.Type, own string) bool {
	if p, ok := t.(*types.Pointer); ok {
		t = p.Elem()
	}
	n, ok := t.(*types.Named)
	if !ok {
		return false
	}
	switch n.Obj().Name() {
	case "ConstScalar", "Scalar", "MagicScalar":
		return true
	}
	for _, T := range allScalarTypes {
		if n.Obj().Name() == T && T != own {
			return true // a concrete operand of another type; an operand of the receiver's own type compares in the own representation
		}
	}
	return false
}

// checkConstantWidth (C02.R10): a method of scalar type T that needs a constant (1, 2, the length of a vector) builds it in
// T's own constant type or in ConstFloat64. A constant built in a narrower constant type (ConstInt8 inside Int16.Vmean)
// wraps or rounds before the operation: Int16.Vmean over 200 elements divides by -56.
func checkConstantWidth(c *core.Ctx, pkg *packages.Package) {
	c.Rule("C02.R10", "constants built inside a method of scalar type T have T's own constant type or ConstFloat64", 50)
	info := pkg.TypesInfo
	partner := map[string]string{"Int8": "ConstInt8", "Int16": "ConstInt16", "Int32": "ConstInt32", "Int64": "ConstInt64", "Int": "ConstInt",
		"Float32": "ConstFloat32", "Float64": "ConstFloat64", "Real32": "ConstFloat32", "Real64": "ConstFloat64"}
	core.EachFunc(pkg, func(_ *ast.File, fd *ast.FuncDecl) {
		if fd.Recv == nil {
			return
		}
		T := core.RecvTypeName(fd)
		own, ok := partner[T]
		if !ok {
			return
		}
		cons := c.FuncName(pkg, fd)
		seen := map[string]bool{}
		ast.Inspect(fd.Body, func(n ast.Node) bool {
			ce, ok := n.(*ast.CallExpr)
			if !ok || len(ce.Args) != 1 {
				return true
			}
			tv, ok := info.Types[ce.Fun]
			if !ok || !tv.IsType() {
				return true
			}
			nt, ok := tv.Type.(*types.Named)
			if !ok || !strings.HasPrefix(nt.Obj().Name(), "Const") {
				return true
			}
			name := nt.Obj().Name()
			if _, isScalar := partner[strings.TrimPrefix(name, "Const")]; !isScalar {
				return true
			}
			if seen[name] {
				return true
			}
			seen[name] = true
			c.Check(name == own || name == "ConstFloat64", "C02.R10", cons, "constant type "+name, ce.Pos(),
				"a method of "+T+" builds a constant as "+name+"; its own constant type is "+own+": a narrower constant wraps or rounds the value before the operation (a vector length of 200 becomes -56 in ConstInt8)")
			return true
		})
	})
}
