// Package checks holds one file per property.
package checks

import "verif/internal/core"

// Registry maps property id to its check.
var Registry = map[string]func(*core.Ctx) error{}
