package checks

import (
	"go/ast"
	"go/token"
	"go/types"
	"strings"

	"golang.org/x/tools/go/packages"

	"verif/internal/core"
)

func init() { Registry["C03"] = checkC03 }

func kernelOp(name string) (op string, scalarB bool, ok bool) {
	l := strings.ToLower(name)
	if len(l) != 5 || (l[0] != 'v' && l[0] != 'm') {
		return "", false, false
	}
	op = l[1:4]
	switch op {
	case "add", "sub", "mul", "div":
	default:
		return "", false, false
	}
	switch l[4] {
	case 'v', 'm':
		if l[4] != l[0] {
			return "", false, false
		}
		return op, false, true
	case 's':
		return op, true, true
	}
	return "", false, false
}

func checkC03(c *core.Ctx) error {
	if err := c.Load(packages.LoadSyntax); err != nil {
		return err
	}
	c.Explanation = "Storage independence decided from the code that merges index streams: (R1) no iterator's Ok() depends on element values; (R2) the merge step Next() of every joint iterator is interpreted on a model of its sub-iterators " +
		"for every liveness combination and every weak ordering of the live indices and must position on the minimum index with exactly the operands live there; (R3) every sparse element-wise kernel is interpreted once per presence case " +
		"(receiver/operand entry present or absent, stale receiver entries included) and the resulting receiver element must equal op(a,b) with absent entries counting as zero; kernels restricted to the joint support must have op(0,0)=0; " +
		"(R4) Set/SetIdentity iterate over a domain that covers the source's support, not the receiver's current support."
	c.Rule("C03.R1", "Ok() of every iterator is independent of element values (only positions and presence)", 60)
	c.Rule("C03.R2", "merge step of every joint iterator: after Next() the position is the minimum live index, s_k is present exactly for the operands live at it, exactly those sub-iterators advanced, stale elements cleared; Ok() true iff some operand is live", 60)
	c.Rule("C03.R3", "sparse element-wise kernels equal op(a,b) with absent = 0 in every presence case, including absent and stale receiver entries; support-restricted iteration only where op(0,0)=0", 600)
	c.Rule("C03.R4", "Set/SET/SetIdentity of sparse containers iterate over all positions or over a joint domain that includes the source, never over the receiver's current support alone", 27)
	checkNullScalar(c)
	pkg := c.Root
	info := pkg.TypesInfo

	// R1
	valueGetter := func(n string) bool {
		return strings.HasPrefix(n, "GetFloat") || strings.HasPrefix(n, "GetInt") || n == "nullScalar" || n == "Sign" || n == "Equals" || n == "GetLogValue"
	}
	core.EachFunc(pkg, func(_ *ast.File, fd *ast.FuncDecl) {
		T := core.RecvTypeName(fd)
		if fd.Name.Name != "Ok" || !strings.Contains(T, "Iterator") {
			return
		}
		cons := "(*" + T + ").Ok"
		bad := ""
		var pos token.Pos
		ast.Inspect(fd.Body, func(n ast.Node) bool {
			if ce, ok := n.(*ast.CallExpr); ok {
				if nm := calleeName(ce); valueGetter(nm) {
					bad = nm
					pos = ce.Pos()
				}
			}
			return true
		})
		c.Check(bad == "", "C03.R1", cons, "no element value is read", pos,
			"Ok() calls "+bad+"() on the current elements: the iteration ends at the first position where all visited operands hold the value zero, so the result depends on the zero pattern of dense operands")
	})
	// R1b: zero-skipping in Next()/skip() goes through nullScalar() (value and derivatives), never the value alone
	core.EachFunc(pkg, func(_ *ast.File, fd *ast.FuncDecl) {
		T := core.RecvTypeName(fd)
		if (fd.Name.Name != "Next" && fd.Name.Name != "skip" && fd.Name.Name != "next") || !strings.Contains(T, "Iterator") || strings.Contains(T, "Joint") {
			return
		}
		cons := "(*" + T + ")." + fd.Name.Name
		bad := ""
		var pos token.Pos
		ast.Inspect(fd.Body, func(n ast.Node) bool {
			if ce, ok := n.(*ast.CallExpr); ok {
				if nm := calleeName(ce); strings.HasPrefix(nm, "GetFloat") || strings.HasPrefix(nm, "GetInt") || nm == "Sign" || nm == "Equals" {
					bad = nm
					pos = ce.Pos()
				}
			}
			// the value field of a scalar read directly (x.Value == 0): same defect without a method call
			if sel, ok := n.(*ast.SelectorExpr); ok && sel.Sel.Name == "Value" {
				if fv, ok := pkg.TypesInfo.Uses[sel.Sel].(*types.Var); ok && fv.IsField() {
					if tv, ok := pkg.TypesInfo.Types[sel.X]; ok && isScalarTypeName(namedOfType(tv.Type)) {
						bad = "the field Value"
						pos = sel.Pos()
					}
				}
			}
			return true
		})
		c.Check(bad == "", "C03.R1", cons, "elements are skipped only through nullScalar()", pos,
			"the iterator decides which elements to skip with "+bad+": an element whose value is zero but which carries derivatives is treated as a structural zero (derivatives are lost in conversions and products)")
	})
	// R1c: in skip()/Next() of the sparse iterators every removal of a stored entry (delete(values, i), index Delete) is
	// reached only on the true edge of a condition that calls nullScalar() (for the Real types this is the only test that
	// also looks at the derivatives)
	core.EachFunc(pkg, func(_ *ast.File, fd *ast.FuncDecl) {
		T := core.RecvTypeName(fd)
		if (fd.Name.Name != "Next" && fd.Name.Name != "skip") || !strings.Contains(T, "Iterator") || !strings.HasPrefix(T, "Sparse") || strings.Contains(T, "Joint") || fd.Body == nil {
			return
		}
		var dels []*ast.CallExpr
		ast.Inspect(fd.Body, func(n ast.Node) bool {
			if ce, ok := n.(*ast.CallExpr); ok {
				if id, ok := ce.Fun.(*ast.Ident); ok && id.Name == "delete" {
					dels = append(dels, ce)
				} else if nm := calleeName(ce); nm == "indexDelete" || nm == "Delete" {
					dels = append(dels, ce)
				}
			}
			return true
		})
		if len(dels) == 0 {
			return
		}
		g := core.NewFuncCFG(fd.Body, pkg.TypesInfo)
		var conds []ast.Expr
		for _, b := range g.G.Blocks {
			if len(b.Succs) == 2 && len(b.Nodes) > 0 {
				if e, ok := b.Nodes[len(b.Nodes)-1].(ast.Expr); ok {
					has := false
					ast.Inspect(e, func(n ast.Node) bool {
						if ce, ok := n.(*ast.CallExpr); ok && calleeName(ce) == "nullScalar" {
							has = true
						}
						return true
					})
					// only a conjunction (or the bare call) guarantees nullScalar() on the true edge
					if has && !containsOr(e) && !containsNot(e) {
						conds = append(conds, e)
					}
				}
			}
		}
		cons := "(*" + T + ")." + fd.Name.Name
		for _, d := range dels {
			db, _ := g.BlockOf(d.Pos())
			ok := false
			for _, e := range conds {
				if tb, _ := g.CondEdge(e); tb != nil && db != nil && g.Dominates(tb, db) {
					ok = true
				}
			}
			c.Check(ok, "C03.R1", cons, "entries are removed only when nullScalar() holds", d.Pos(),
				"the removal "+types.ExprString(d)+" is not guarded by a nullScalar() test on the current element: an entry whose value is zero but which carries derivatives (or any non-null entry) can be dropped while iterating")
		}
	})
	// R2
	for _, jt := range jointIteratorTypes(pkg) {
		checkMergeStep(c, pkg, "C03.R2", jt)
	}
	// R3
	core.EachFunc(pkg, func(_ *ast.File, fd *ast.FuncDecl) {
		T := core.RecvTypeName(fd)
		if !strings.HasPrefix(T, "Sparse") || strings.Contains(T, "Const") || strings.Contains(T, "Iterator") {
			return
		}
		op, scalarB, ok := kernelOp(fd.Name.Name)
		if !ok {
			return
		}
		checkSparseKernel(c, pkg, "C03.R3", fd, "(*"+T+")."+fd.Name.Name, op, scalarB)
	})
	checkSparseAccumulation(c)
	// R4
	core.EachFunc(pkg, func(_ *ast.File, fd *ast.FuncDecl) {
		T := core.RecvTypeName(fd)
		if !strings.HasPrefix(T, "Sparse") || strings.Contains(T, "Const") || strings.Contains(T, "Iterator") {
			return
		}
		switch fd.Name.Name {
		case "Set", "SET", "SetIdentity":
		default:
			return
		}
		cons := "(*" + T + ")." + fd.Name.Name
		recv := info.Defs[fd.Recv.List[0].Names[0]]
		bad := ""
		var pos token.Pos
		nloops := 0
		ast.Inspect(fd.Body, func(n ast.Node) bool {
			fs, ok := n.(*ast.ForStmt)
			if !ok {
				return true
			}
			nloops++
			as, ok := fs.Init.(*ast.AssignStmt)
			if !ok || len(as.Rhs) != 1 {
				return true
			}
			ce, ok := as.Rhs[0].(*ast.CallExpr)
			if !ok {
				return true
			}
			nm := calleeName(ce)
			if se, ok := ce.Fun.(*ast.SelectorExpr); ok {
				if id, ok := ast.Unparen(se.X).(*ast.Ident); ok && info.Uses[id] == recv {
					if nm == "Iterator" || nm == "ITERATOR" || nm == "ConstIterator" || nm == "MagicIterator" {
						bad = nm
						pos = fs.Pos()
					}
				}
			}
			return true
		})
		if nloops == 0 {
			// delegation (Set -> SET after a type switch) is fine
			c.OK("C03.R4", cons, "no own loop (delegates)", fd.Pos(), "")
			return
		}
		c.Check(bad == "", "C03.R4", cons, "iteration domain covers the source", pos,
			"the loop runs over the receiver's own "+bad+"(): positions where the receiver has no entry are never written, so copying into an empty (or differently patterned) receiver drops elements")
	})
	// R4 (dense receivers): Set/SET of a dense container has to overwrite every element; a loop driven by the operand's
	// iterator visits only the operand's stored (non-zero) entries and leaves the rest of the receiver as it was
	core.EachFunc(pkg, func(_ *ast.File, fd *ast.FuncDecl) {
		T := core.RecvTypeName(fd)
		if !strings.HasPrefix(T, "Dense") || strings.Contains(T, "Iterator") || fd.Recv == nil || fd.Body == nil {
			return
		}
		if fd.Name.Name != "Set" && fd.Name.Name != "SET" {
			return
		}
		params := map[types.Object]bool{}
		for _, f := range fd.Type.Params.List {
			for _, n := range f.Names {
				params[info.Defs[n]] = true
			}
		}
		cons := "(*" + T + ")." + fd.Name.Name
		bad := ""
		var pos token.Pos
		nloops := 0
		ast.Inspect(fd.Body, func(n ast.Node) bool {
			fs, ok := n.(*ast.ForStmt)
			if !ok {
				return true
			}
			nloops++
			as, ok := fs.Init.(*ast.AssignStmt)
			if !ok || len(as.Rhs) != 1 {
				return true
			}
			ce, ok := as.Rhs[0].(*ast.CallExpr)
			if !ok {
				return true
			}
			if se, ok := ce.Fun.(*ast.SelectorExpr); ok && strings.Contains(strings.ToLower(se.Sel.Name), "iterator") {
				if id, ok := ast.Unparen(se.X).(*ast.Ident); ok && params[info.Uses[id]] {
					bad = se.Sel.Name
					pos = fs.Pos()
				}
			}
			return true
		})
		if nloops == 0 {
			c.OK("C03.R4", cons, "no own loop (delegates)", fd.Pos(), "")
			return
		}
		c.Check(bad == "", "C03.R4", cons, "every element of the dense receiver is overwritten", pos,
			"the loop runs over the operand's "+bad+"(): a sparse operand yields only its stored non-zero entries, so the other elements of the dense receiver keep their old values")
	})
	// R4b: Equals/EQUALS of sparse containers report inequality only after comparing element values
	core.EachFunc(pkg, func(_ *ast.File, fd *ast.FuncDecl) {
		T := core.RecvTypeName(fd)
		if !strings.HasPrefix(T, "Sparse") || strings.Contains(T, "Const") || strings.Contains(T, "Iterator") {
			return
		}
		if fd.Name.Name != "Equals" && fd.Name.Name != "EQUALS" {
			return
		}
		cons := "(*" + T + ")." + fd.Name.Name
		n := 0
		ast.Inspect(fd.Body, func(x ast.Node) bool {
			is, ok := x.(*ast.IfStmt)
			if !ok {
				return true
			}
			retFalse := false
			for _, st := range is.Body.List {
				if rs, ok := st.(*ast.ReturnStmt); ok && len(rs.Results) == 1 {
					if id, ok := rs.Results[0].(*ast.Ident); ok && id.Name == "false" {
						retFalse = true
					}
				}
			}
			if !retFalse {
				return true
			}
			n++
			compares := false
			ast.Inspect(is.Cond, func(y ast.Node) bool {
				if ce, ok := y.(*ast.CallExpr); ok && (calleeName(ce) == "Equals" || calleeName(ce) == "EQUALS") {
					compares = true
				}
				return true
			})
			c.Check(compares, "C03.R4", cons, "'return false' under "+types.ExprString(is.Cond), is.Pos(),
				"inequality is reported because an entry is absent on one side, without comparing its value with zero: a stored value within epsilon of zero (or an explicit zero) compares unequal to an absent entry, unlike the dense comparison")
			return true
		})
		if n == 0 {
			c.Unknown("C03.R4", cons, "comparison loop", fd.Pos(), "no 'return false' found")
		}
	})
	return nil
}

var _ = types.ExprString

func containsOr(e ast.Expr) bool {
	r := false
	ast.Inspect(e, func(n ast.Node) bool {
		if b, ok := n.(*ast.BinaryExpr); ok && b.Op == token.LOR {
			r = true
		}
		return true
	})
	return r
}

func containsNot(e ast.Expr) bool {
	r := false
	ast.Inspect(e, func(n ast.Node) bool {
		if u, ok := n.(*ast.UnaryExpr); ok && u.Op == token.NOT {
			r = true
		}
		return true
	})
	return r
}
