package checks

import (
	"fmt"
	"go/ast"
	"go/types"
	"sort"
	"strings"

	"golang.org/x/tools/go/packages"

	"verif/internal/core"
)

// C19.R8 — modular height contracts of insert / delete / deleteRec.
//
// The three recursive procedures are interpreted on an abstract heap: the nodes within three levels of the receiver are
// explicit (with every admissible assignment of balance factors), deeper subtrees are opaque and carry only a height.
// Recursive calls are not unfolded; they are replaced by their contract (assume/guarantee induction over the height of
// the subtree): the callee leaves a valid subtree in its slot whose height is reported by the returned flag. The rule
// proves that the procedure then re-establishes the same contract for its own subtree: every balance factor equals
// height(right)-height(left), no factor exceeds 1 in absolute value, parent links are consistent and the returned
// flag says exactly whether the subtree height changed. Absolute heights 0..hmax are enumerated; at hmax every node
// the code can inspect is non-nil, and since the code sees heights only through balance factors and nil tests, hmax
// represents every larger tree.

var c19Hmax = 9

// explicit levels of the subtree a summarised recursive call leaves behind
var c19StubDepth = 2

type hshape struct {
	nilp, opaque bool
	h, bal       int
	l, r         *hshape
}

var hgenMemo = map[[2]int][]*hshape{}

// hgen enumerates the valid AVL subtrees of height H that are explicit for `depth` levels.
func hgen(H, depth int) []*hshape {
	if H < 0 {
		return nil
	}
	if H == 0 {
		return []*hshape{{nilp: true}}
	}
	if depth == 0 {
		return []*hshape{{opaque: true, h: H}}
	}
	k := [2]int{H, depth}
	if r, ok := hgenMemo[k]; ok {
		return r
	}
	var out []*hshape
	for _, b := range []int{-1, 0, 1} {
		hl, hr := H-1, H-1
		if b == -1 {
			hr = H - 2
		}
		if b == 1 {
			hl = H - 2
		}
		for _, l := range hgen(hl, depth-1) {
			for _, r := range hgen(hr, depth-1) {
				out = append(out, &hshape{h: H, bal: b, l: l, r: r})
			}
		}
	}
	hgenMemo[k] = out
	return out
}

// hgenLR enumerates the subtrees of height H whose root is explicit, with dl explicit levels on the left and dr on the right.
func hgenLR(H, dl, dr int) []*hshape {
	var out []*hshape
	for _, b := range []int{-1, 0, 1} {
		hl, hr := H-1, H-1
		if b == -1 {
			hr = H - 2
		}
		if b == 1 {
			hl = H - 2
		}
		for _, l := range hgen(hl, dl) {
			for _, r := range hgen(hr, dr) {
				out = append(out, &hshape{h: H, bal: b, l: l, r: r})
			}
		}
	}
	return out
}

func hbuild(s *hshape, parent *anode, name string) *anode {
	if s == nil || s.nilp {
		return nil
	}
	n := &anode{name: name, parent: parent, opaque: s.opaque, h: s.h, bal: aint{true, s.bal}}
	if !s.opaque {
		n.left = hbuild(s.l, n, name+".Left")
		n.right = hbuild(s.r, n, name+".Right")
	}
	return n
}

// assign in-order keys k10, k20, ... below root; returns next index
func hkeys(n *anode, next int) int {
	if n == nil {
		return next
	}
	if !n.opaque {
		next = hkeys(n.left, next)
	}
	n.key = fmt.Sprintf("k%d", next)
	next += 10
	if !n.opaque {
		next = hkeys(n.right, next)
	}
	return next
}

// hcheck computes the height of the subtree at n and records the first invariant violation.
func hcheck(n, parent *anode, checkParent bool, seen map[*anode]bool, msg *string) int {
	if n == nil {
		return 0
	}
	set := func(format string, a ...interface{}) {
		if *msg == "" {
			*msg = fmt.Sprintf(format, a...)
		}
	}
	if seen[n] {
		set("node %s reachable twice", n.name)
		return 0
	}
	seen[n] = true
	if len(seen) > 200 {
		set("cycle in links")
		return 0
	}
	if n.dead {
		set("subtree %s superseded by the result of the recursive call is still linked (result not attached)", n.name)
		return 0
	}
	if checkParent && n.parent != parent {
		set("Parent of %s is stale", n.name)
	}
	if n.opaque {
		return n.h
	}
	hl := hcheck(n.left, n, true, seen, msg)
	hr := hcheck(n.right, n, true, seen, msg)
	if hr-hl > 1 || hl-hr > 1 {
		set("node %s is out of balance: height(left)=%d height(right)=%d", n.name, hl, hr)
	} else if !n.bal.known || n.bal.v != hr-hl {
		set("Balance of %s is %s but height(right)-height(left)=%d", n.name, aintStr(n.bal), hr-hl)
	}
	if hl > hr {
		return hl + 1
	}
	return hr + 1
}

func aintStr(a aint) string {
	if !a.known {
		return "unknown"
	}
	return fmt.Sprint(a.v)
}

func hserial(n *anode, b *strings.Builder, seen map[*anode]bool) {
	if n == nil {
		b.WriteString("-")
		return
	}
	if seen[n] {
		b.WriteString("@cycle")
		return
	}
	seen[n] = true
	fmt.Fprintf(b, "(%s %s %s", n.name, n.key, aintStr(n.bal))
	if n.opaque {
		fmt.Fprintf(b, " *%d)", n.h)
		return
	}
	b.WriteString(" ")
	hserial(n.left, b, seen)
	b.WriteString(" ")
	hserial(n.right, b, seen)
	b.WriteString(")")
}

func hser(n *anode) string {
	var b strings.Builder
	hserial(n, &b, map[*anode]bool{})
	return b.String()
}

// heightOf computes the height of a (pre-state, valid) subtree.
func heightOf(n *anode, guard int) int {
	if n == nil || guard > 50 {
		return 0
	}
	if n.opaque {
		return n.h
	}
	l, r := heightOf(n.left, guard+1), heightOf(n.right, guard+1)
	if l > r {
		return l + 1
	}
	return r + 1
}

// hstubState records what the contract stubs did during one run.
type hstubState struct {
	calls int
	ok    bool // ok reported by the (single) recursive insert/delete
	desc  string
}

// replaceInPlace overwrites node n with the structure of fresh (identity of n preserved, as the real procedures do).
func replaceInPlace(n, fresh *anode) {
	n.opaque, n.h, n.bal = fresh.opaque, fresh.h, fresh.bal
	n.left, n.right = fresh.left, fresh.right
	if n.left != nil {
		n.left.parent = n
	}
	if n.right != nil {
		n.right.parent = n
	}
	n.dead = false
}

func hmarkDead(n *anode) {
	if n != nil {
		n.dead = true
	}
}

// slotOf returns a setter for the link of parent that currently holds child (pointer identity).
func slotOf(parent, child *anode) func(*anode) {
	if parent == nil || child == nil {
		return nil
	}
	if parent.left == child {
		return func(n *anode) {
			parent.left = n
			if n != nil {
				n.parent = parent
			}
		}
	}
	if parent.right == child {
		return func(n *anode) {
			parent.right = n
			if n != nil {
				n.parent = parent
			}
		}
	}
	return nil
}

func keyIdx(s string) int {
	var a int
	fmt.Sscanf(s, "k%d", &a)
	return a
}

// hstub implements the contracts of the recursive procedures.
func hstub(st *hstubState) func(it *interp, name string, recv *aval, args []*aval) []*aval {
	fresh := func(it *interp, H int, tag string, rootNonZero bool) *anode {
		opts := hgen(H, c19StubDepth)
		if rootNonZero && H > 1 {
			var f []*hshape
			for _, o := range opts {
				if o.bal != 0 {
					f = append(f, o)
				}
			}
			opts = f
		}
		if len(opts) == 0 {
			it.fail("undecided: no subtree of height %d", H)
			return nil
		}
		k := 0
		if len(opts) > 1 {
			k = it.chooseN(len(opts))
		}
		it.nfresh++
		n := hbuild(opts[k], nil, fmt.Sprintf("%s%d", tag, it.nfresh))
		return n
	}
	return func(it *interp, name string, recv *aval, args []*aval) []*aval {
		switch name {
		case "insert":
			if len(args) != 2 || args[1].kind != 0 || args[0].kind != 1 {
				it.fail("undecided: insert arguments")
				return nil
			}
			st.calls++
			parent := args[1].p
			H := heightOf(recv.p, 0)
			// outcomes: 0 key present, 1 inserted/height kept (needs H>=1), 2 inserted/height grew
			outs := []int{0, 2}
			if H >= 1 {
				outs = []int{0, 1, 2}
			}
			o := outs[it.chooseN(len(outs))]
			st.desc += fmt.Sprintf(" insert@h%d->outcome%d", H, o)
			switch o {
			case 0:
				st.ok = false
				return []*aval{{kind: 3, b: false}, {kind: 3, b: true}}
			case 1:
				st.ok = true
				f := fresh(it, H, "ins", false)
				if f == nil {
					return nil
				}
				replaceInPlace(recv.p, f)
				return []*aval{{kind: 3, b: true}, {kind: 3, b: true}}
			default:
				st.ok = true
				if recv.p == nil {
					if parent == nil {
						it.fail("undecided: insert below nil parent")
						return nil
					}
					it.nfresh++
					leaf := &anode{name: fmt.Sprintf("leaf%d", it.nfresh), key: args[0].s, bal: aint{true, 0}, parent: parent}
					switch {
					case keyIdx(args[0].s) < keyIdx(parent.key):
						parent.left = leaf
					case keyIdx(args[0].s) > keyIdx(parent.key):
						parent.right = leaf
					default:
						it.fail("undecided: insert of the parent's key below the parent")
						return nil
					}
				} else {
					f := fresh(it, H+1, "ins", true)
					if f == nil {
						return nil
					}
					replaceInPlace(recv.p, f)
				}
				return []*aval{{kind: 3, b: true}, {kind: 3, b: false}}
			}
		case "delete":
			if len(args) != 2 {
				it.fail("undecided: delete arguments")
				return nil
			}
			st.calls++
			H := heightOf(recv.p, 0)
			outs := []int{0}
			if H >= 1 {
				outs = []int{0, 2}
			}
			if H >= 2 {
				outs = []int{0, 1, 2}
			}
			o := outs[it.chooseN(len(outs))]
			st.desc += fmt.Sprintf(" delete@h%d->outcome%d", H, o)
			switch o {
			case 0:
				st.ok = false
				return []*aval{recv, {kind: 3, b: false}, {kind: 3, b: true}}
			case 1:
				st.ok = true
				f := fresh(it, H, "del", false)
				hmarkDead(recv.p)
				return []*aval{{kind: 0, p: f}, {kind: 3, b: true}, {kind: 3, b: true}}
			default:
				st.ok = true
				var f *anode
				if H-1 > 0 {
					f = fresh(it, H-1, "del", false)
				}
				hmarkDead(recv.p)
				return []*aval{{kind: 0, p: f}, {kind: 3, b: true}, {kind: 3, b: false}}
			}
		case "deleteRec":
			if len(args) != 1 || args[0].kind != 0 {
				it.fail("undecided: deleteRec arguments")
				return nil
			}
			if recv.p == nil {
				it.fail("nil dereference: deleteRec on a nil subtree")
				return nil
			}
			st.calls++
			parent := args[0].p
			set := slotOf(parent, recv.p)
			if set == nil {
				it.fail("deleteRec called with a parent that does not hold the receiver")
				return nil
			}
			H := heightOf(recv.p, 0)
			outs := []int{2}
			if H >= 2 {
				outs = []int{1, 2}
			}
			o := outs[it.chooseN(len(outs))]
			st.desc += fmt.Sprintf(" deleteRec@h%d->outcome%d", H, o)
			it.nfresh++
			// the extracted predecessor: stale links and a stale balance factor
			v := &anode{name: fmt.Sprintf("pred%d", it.nfresh), key: recv.p.key, bal: aint{true, 7}}
			v.left = &anode{name: "stale-link-of-predecessor", dead: true}
			var f *anode
			if o == 1 {
				f = fresh(it, H, "rec", false)
			} else if H-1 > 0 {
				f = fresh(it, H-1, "rec", false)
			}
			if it.err != "" {
				return nil
			}
			hmarkDead(recv.p)
			set(f)
			return []*aval{{kind: 0, p: v}, {kind: 3, b: o == 1}}
		}
		return nil
	}
}

type hcase struct {
	name  string
	build func(H int) []func() (root *anode, frame map[string]*aval, slot func() *anode, pre int)
}

func checkAvlHeights(c *core.Ctx, pkg *packages.Package) {
	c.Rule("C19.R8", "height contracts: insert, delete and deleteRec, interpreted on every abstract heap with explicit nodes three levels deep (all admissible balance factors, absolute heights 0..9, opaque subtrees below) "+
		"and with recursive calls replaced by their contract, leave a subtree whose balance factors equal height(right)-height(left), never exceed 1 in absolute value, whose parent links are consistent, "+
		"and return a flag that says exactly whether the subtree height changed (and, for insert, a grown subtree has a non-zero root factor unless it is a new leaf)", 3)
	info := pkg.TypesInfo
	if c.Tier == "thorough" {
		c19Hmax = 12 // (explicit depth 3 of the summarised subtrees was tried once: 10.8 million runs, 34 min, no finding)
	}
	type result struct {
		runs int
		bad  int
		msg  string
	}
	run := func(fd *ast.FuncDecl, mk func() (frame map[string]*aval, judge func(it *interp, st *hstubState) string)) (r result) {
		var choices []int
		for {
			frame, judge := mk()
			st := &hstubState{}
			it := &interp{pkg: pkg, choices: choices, stub: hstub(st)}
			fr := map[types.Object]*aval{}
			if len(fd.Recv.List[0].Names) > 0 {
				fr[info.Defs[fd.Recv.List[0].Names[0]]] = frame["recv"]
			}
			k := 0
			for _, f := range fd.Type.Params.List {
				for _, n := range f.Names {
					if v, ok := frame[fmt.Sprintf("arg%d", k)]; ok {
						fr[info.Defs[n]] = v
					}
					k++
				}
			}
			it.env = []map[types.Object]*aval{fr}
			it.block(fd.Body.List)
			r.runs++
			msg := it.err
			if msg == "" {
				msg = judge(it, st)
			}
			if msg != "" {
				if strings.HasPrefix(msg, "undecided") {
					r.msg = msg
					r.bad = -1
					return
				}
				r.bad++
				if r.msg == "" {
					r.msg = msg + " [" + strings.TrimSpace(st.desc) + "]"
				}
			}
			choices = nextChoicesN(it.made, it.bounds)
			if choices == nil {
				return
			}
		}
	}
	boolOf := func(v *aval) (bool, bool) {
		if v == nil || v.kind != 3 {
			return false, false
		}
		return v.b, true
	}
	report := func(cons, detail string, fd *ast.FuncDecl, tot result) {
		c.Analysed["height_contract_runs:"+cons+":"+detail] = tot.runs
		if tot.bad < 0 {
			c.Unknown("C19.R8", cons, detail, fd.Pos(), tot.msg)
			return
		}
		c.Check(tot.bad == 0 && tot.runs > 0, "C19.R8", cons, detail, fd.Pos(), fmt.Sprintf("%d of %d abstract runs break the height contract; first: %s", tot.bad, tot.runs, tot.msg))
	}
	add := func(tot *result, r result) {
		tot.runs += r.runs
		if tot.bad >= 0 {
			if r.bad < 0 {
				tot.bad = -1
				tot.msg = r.msg
			} else {
				tot.bad += r.bad
				if tot.msg == "" {
					tot.msg = r.msg
				}
			}
		}
	}

	// ------------------------------------------------------------------ insert
	if fd := core.FindMethod(pkg, "AvlNode", "insert"); fd == nil {
		c.Unknown("C19.R8", "(*AvlNode).insert", "present", 0, "not found")
	} else {
		cons := "(*AvlNode).insert"
		// receiver nil below an explicit parent
		var tot result
		for _, side := range []string{"Left", "Right"} {
			for _, rel := range []int{-1, 0, 1} {
				if (side == "Left" && rel == 1) || (side == "Right" && rel == -1) {
					continue // the caller descends to the side given by the comparison (C19.R6)
				}
				for otherH := 0; otherH <= 1; otherH++ {
					side, rel, otherH := side, rel, otherH
					add(&tot, run(fd, func() (map[string]*aval, func(*interp, *hstubState) string) {
						P := &anode{name: "parent", bal: aint{true, 0}}
						if otherH == 1 {
							o := &anode{name: "sibling", opaque: true, h: 1, parent: P, bal: aint{true, 0}}
							if side == "Left" {
								P.right = o
							} else {
								P.left = o
							}
						}
						hkeys(P, 10)
						before := hser(P)
						i := fmt.Sprintf("k%d", keyIdx(P.key)+rel*5)
						frame := map[string]*aval{"recv": {kind: 0}, "arg0": {kind: 1, s: i}, "arg1": {kind: 0, p: P}}
						return frame, func(it *interp, st *hstubState) string {
							ok, k1 := boolOf(retAt(it, 0))
							bal, k2 := boolOf(retAt(it, 1))
							if !k1 || !k2 {
								return "undecided: insert did not return two booleans"
							}
							if rel == 0 {
								if ok || !bal || hser(P) != before {
									return "insert of the parent's key below a nil link must return (false, true) and change nothing"
								}
								return ""
							}
							if !ok || bal {
								return fmt.Sprintf("insert into an empty slot returned (%v, %v); the slot grew from height 0 to 1, expected (true, false)", ok, bal)
							}
							slot := P.left
							if side == "Right" {
								slot = P.right
							}
							msg := ""
							h := hcheck(slot, P, true, map[*anode]bool{}, &msg)
							if msg == "" && h != 1 {
								msg = fmt.Sprintf("slot has height %d after inserting a leaf", h)
							}
							if msg == "" && slot.key != i {
								msg = "new leaf does not carry the inserted key"
							}
							return msg
						}
					}))
				}
			}
		}
		report(cons, "empty slot", fd, tot)
		tot = result{}
		for H := 1; H <= c19Hmax; H++ {
			for _, rel := range []int{-1, 0, 1} {
				for si := range hgenLR(H, 0, 0) {
					H, rel, si := H, rel, si
					add(&tot, run(fd, func() (map[string]*aval, func(*interp, *hstubState) string) {
						obj := hbuild(hgenLR(H, 0, 0)[si], nil, "obj")
						hkeys(obj, 10)
						before := hser(obj)
						i := fmt.Sprintf("k%d", keyIdx(obj.key)+rel*5)
						frame := map[string]*aval{"recv": {kind: 0, p: obj}, "arg0": {kind: 1, s: i}, "arg1": {kind: 0}}
						return frame, func(it *interp, st *hstubState) string {
							ok, k1 := boolOf(retAt(it, 0))
							bal, k2 := boolOf(retAt(it, 1))
							if !k1 || !k2 {
								return "undecided: insert did not return two booleans"
							}
							if rel == 0 {
								if ok || !bal || hser(obj) != before || st.calls != 0 {
									return "insert of the root's key must return (false, true) and change nothing"
								}
								return ""
							}
							if st.calls != 1 {
								return fmt.Sprintf("expected exactly one recursive insert, found %d", st.calls)
							}
							if ok != st.ok {
								return fmt.Sprintf("returns ok=%v although the recursive insert reported %v", ok, st.ok)
							}
							if !ok {
								if !bal || hser(obj) != before {
									return "a failed insert must return balanced=true and change nothing"
								}
								return ""
							}
							msg := ""
							h := hcheck(obj, nil, false, map[*anode]bool{}, &msg)
							if msg != "" {
								return msg
							}
							if bal && h != H {
								return fmt.Sprintf("returns balanced=true but the subtree height changed from %d to %d", H, h)
							}
							if !bal && h != H+1 {
								return fmt.Sprintf("returns balanced=false (height grew) but the subtree height went from %d to %d", H, h)
							}
							if !bal && h > 1 && obj.bal.v == 0 {
								return "a subtree that grew has a zero balance factor at its root (callers choose the rotation from this factor)"
							}
							return ""
						}
					}))
				}
			}
		}
		report(cons, "non-empty subtree", fd, tot)
	}

	// ------------------------------------------------------------------ delete
	if fd := core.FindMethod(pkg, "AvlNode", "delete"); fd == nil {
		c.Unknown("C19.R8", "(*AvlNode).delete", "present", 0, "not found")
	} else {
		cons := "(*AvlNode).delete"
		var tot result
		for H := 1; H <= c19Hmax; H++ {
			for _, rel := range []int{-1, 0, 1} {
				dl, dr := 0, 2
				if rel == 1 {
					dl, dr = 2, 0
				}
				for si := range hgenLR(H, dl, dr) {
					H, rel, si, dl, dr := H, rel, si, dl, dr
					add(&tot, run(fd, func() (map[string]*aval, func(*interp, *hstubState) string) {
						P := &anode{name: "above", key: "k0", bal: aint{true, 0}}
						obj := hbuild(hgenLR(H, dl, dr)[si], P, "obj")
						P.right = obj
						hkeys(obj, 10)
						before := hser(obj)
						i := fmt.Sprintf("k%d", keyIdx(obj.key)+rel*5)
						frame := map[string]*aval{"recv": {kind: 0, p: obj}, "arg0": {kind: 1, s: i}, "arg1": {kind: 0, p: P}}
						return frame, func(it *interp, st *hstubState) string {
							r := retAt(it, 0)
							ok, k1 := boolOf(retAt(it, 1))
							bal, k2 := boolOf(retAt(it, 2))
							if r == nil || r.kind != 0 || !k1 || !k2 {
								return "undecided: delete did not return (node, bool, bool)"
							}
							if rel != 0 {
								if st.calls != 1 {
									return fmt.Sprintf("expected exactly one recursive delete, found %d", st.calls)
								}
								if ok != st.ok {
									return fmt.Sprintf("returns ok=%v although the recursive delete reported %v", ok, st.ok)
								}
								if !ok {
									if !bal || hser(obj) != before {
										return "a failed delete must return balanced=true and change nothing"
									}
									return ""
								}
							} else if !ok {
								return "deleting the key of the receiver must return ok=true"
							}
							msg := ""
							h := hcheck(r.p, nil, false, map[*anode]bool{}, &msg)
							if msg != "" {
								return msg
							}
							if r.p != nil && r.p.parent != P && r.p.parent != nil {
								return "Parent of the returned subtree root points to a detached node"
							}
							if bal && h != H {
								return fmt.Sprintf("returns balanced=true but the subtree height changed from %d to %d", H, h)
							}
							if !bal && h != H-1 {
								return fmt.Sprintf("returns balanced=false (height shrank) but the subtree height went from %d to %d", H, h)
							}
							return ""
						}
					}))
				}
			}
		}
		report(cons, "non-empty subtree", fd, tot)
		tot = result{}
		add(&tot, run(fd, func() (map[string]*aval, func(*interp, *hstubState) string) {
			frame := map[string]*aval{"recv": {kind: 0}, "arg0": {kind: 1, s: "k5"}, "arg1": {kind: 0}}
			return frame, func(it *interp, st *hstubState) string {
				r := retAt(it, 0)
				ok, k1 := boolOf(retAt(it, 1))
				bal, k2 := boolOf(retAt(it, 2))
				if r == nil || !k1 || !k2 {
					return "undecided: delete did not return (node, bool, bool)"
				}
				if r.p != nil || ok || !bal {
					return "delete on an empty subtree must return (nil, false, true)"
				}
				return ""
			}
		}))
		report(cons, "empty subtree", fd, tot)
	}

	// ------------------------------------------------------------------ deleteRec
	if fd := core.FindMethod(pkg, "AvlNode", "deleteRec"); fd == nil {
		c.Unknown("C19.R8", "(*AvlNode).deleteRec", "present", 0, "not found")
	} else {
		cons := "(*AvlNode).deleteRec"
		var tot result
		for H := 1; H <= c19Hmax; H++ {
			for _, side := range []string{"Left", "Right"} {
				for si := range hgenLR(H, 2, 0) {
					H, side, si := H, side, si
					add(&tot, run(fd, func() (map[string]*aval, func(*interp, *hstubState) string) {
						P := &anode{name: "parent", bal: aint{true, 0}}
						obj := hbuild(hgenLR(H, 2, 0)[si], P, "obj")
						if side == "Left" {
							P.left = obj
						} else {
							P.right = obj
						}
						hkeys(P, 10)
						frame := map[string]*aval{"recv": {kind: 0, p: obj}, "arg0": {kind: 0, p: P}}
						return frame, func(it *interp, st *hstubState) string {
							v := retAt(it, 0)
							bal, k2 := boolOf(retAt(it, 1))
							if v == nil || v.kind != 0 || !k2 {
								return "undecided: deleteRec did not return (node, bool)"
							}
							if v.p == nil {
								return "deleteRec returned no extracted node"
							}
							slot := P.left
							other := P.right
							if side == "Right" {
								slot, other = P.right, P.left
							}
							if other != nil {
								return "deleteRec attached the remainder to the wrong side of the parent"
							}
							msg := ""
							h := hcheck(slot, P, true, map[*anode]bool{}, &msg)
							if msg != "" {
								return msg
							}
							if bal && h != H {
								return fmt.Sprintf("returns balanced=true but the subtree height changed from %d to %d", H, h)
							}
							if !bal && h != H-1 {
								return fmt.Sprintf("returns balanced=false (height shrank) but the subtree height went from %d to %d", H, h)
							}
							return ""
						}
					}))
				}
			}
		}
		report(cons, "non-empty subtree", fd, tot)
	}
	_ = sort.Strings
}

func retAt(it *interp, k int) *aval {
	if k < len(it.ret) {
		return it.ret[k]
	}
	return nil
}
