package checks

import (
	"fmt"
	"go/ast"
	"go/token"
	"go/types"
	"strings"

	"golang.org/x/tools/go/packages"

	"verif/internal/core"
)

// Model interpreter for the merge step (Next) of joint iterators: the code touches the
// sub-iterators only through Ok/Index/GET/Next and compares indices with ==, > and !ok,
// so enumerating liveness x small index values covers every weak ordering.

type jval struct {
	kind string // bool int pair elem nil zero iter unknown
	b    bool
	i    int
	j    int
	k    int // elem: source iterator ; iter: number
}

type jiter struct {
	live     bool
	i, j     int
	advanced int
	pair     bool
}

type jmodel struct {
	info   *types.Info
	recv   types.Object
	its    map[string]*jiter // field name -> iterator
	fields map[string]*jval  // idx, i, j, s1.. (elem presence)
	locals map[types.Object]*jval
	err    string
	done   bool
}

func (m *jmodel) fail(f string, a ...interface{}) {
	if m.err == "" {
		m.err = fmt.Sprintf(f, a...)
	}
}

func (m *jmodel) isRecv(e ast.Expr) bool {
	id, ok := ast.Unparen(e).(*ast.Ident)
	return ok && m.info.Uses[id] == m.recv
}

// fieldPath returns "s1", "s1.ptr", "idx", "it1" for obj.<...>
func (m *jmodel) fieldPath(e ast.Expr) (string, bool) {
	var parts []string
	for {
		s, ok := ast.Unparen(e).(*ast.SelectorExpr)
		if !ok {
			break
		}
		parts = append([]string{s.Sel.Name}, parts...)
		e = s.X
	}
	if !m.isRecv(e) || len(parts) == 0 {
		return "", false
	}
	return strings.Join(parts, "."), true
}

func (m *jmodel) eval(e ast.Expr) *jval {
	e = ast.Unparen(e)
	if tv, ok := m.info.Types[e]; ok && tv.Value != nil {
		var n int
		if _, err := fmt.Sscanf(tv.Value.ExactString(), "%d", &n); err == nil {
			return &jval{kind: "int", i: n}
		}
	}
	switch x := e.(type) {
	case *ast.Ident:
		if x.Name == "nil" {
			return &jval{kind: "nil"}
		}
		if x.Name == "true" || x.Name == "false" {
			return &jval{kind: "bool", b: x.Name == "true"}
		}
		if v, ok := m.locals[m.info.Uses[x]]; ok {
			return v
		}
		m.fail("unbound %s", x.Name)
	case *ast.SelectorExpr:
		p, ok := m.fieldPath(x)
		if !ok {
			m.fail("selector %s", types.ExprString(e))
			return nil
		}
		p = strings.TrimSuffix(p, ".ptr")
		if v, ok := m.fields[p]; ok {
			return v
		}
		m.fail("field %s", p)
	case *ast.UnaryExpr:
		if x.Op == token.NOT {
			v := m.eval(x.X)
			if v != nil && v.kind == "bool" {
				return &jval{kind: "bool", b: !v.b}
			}
			if v != nil {
				m.fail("! on %s", v.kind)
			}
			return nil
		}
	case *ast.BinaryExpr:
		if x.Op == token.LAND || x.Op == token.LOR {
			l := m.eval(x.X)
			if l == nil {
				return nil
			}
			if l.kind != "bool" {
				m.fail("boolean operand %s", l.kind)
				return nil
			}
			if (x.Op == token.LAND && !l.b) || (x.Op == token.LOR && l.b) {
				return l
			}
			return m.eval(x.Y)
		}
		l, r := m.eval(x.X), m.eval(x.Y)
		if l == nil || r == nil {
			return nil
		}
		isAbsent := func(v *jval) bool { return v.kind == "nil" || v.kind == "zero" }
		if l.kind == "nil" || r.kind == "nil" {
			o := l
			if l.kind == "nil" {
				o = r
			}
			// a zero substitute is a non-nil value
			eq := o.kind == "nil"
			_ = isAbsent
			if x.Op == token.EQL {
				return &jval{kind: "bool", b: eq}
			}
			if x.Op == token.NEQ {
				return &jval{kind: "bool", b: !eq}
			}
		}
		if l.kind == "int" && r.kind == "int" {
			var b bool
			switch x.Op {
			case token.EQL:
				b = l.i == r.i
			case token.NEQ:
				b = l.i != r.i
			case token.LSS:
				b = l.i < r.i
			case token.LEQ:
				b = l.i <= r.i
			case token.GTR:
				b = l.i > r.i
			case token.GEQ:
				b = l.i >= r.i
			case token.ADD:
				return &jval{kind: "int", i: l.i + r.i}
			case token.SUB:
				return &jval{kind: "int", i: l.i - r.i}
			default:
				m.fail("int operator %s", x.Op)
				return nil
			}
			return &jval{kind: "bool", b: b}
		}
		if (l.kind == "elem" || r.kind == "elem") && (l.kind == "zero" || r.kind == "zero" || l.kind == "int" || r.kind == "int") {
			m.fail("presence of an operand is decided by comparing the element's value with zero (a stored zero is treated as absent and its sub-iterator is never advanced)")
			return nil
		}
		m.fail("binary %s on %s,%s", x.Op, l.kind, r.kind)
	case *ast.CallExpr:
		// conversions / constructors of a zero scalar
		if tv, ok := m.info.Types[x.Fun]; ok && tv.IsType() {
			return &jval{kind: "zero"}
		}
		s, ok := ast.Unparen(x.Fun).(*ast.SelectorExpr)
		if !ok {
			if id, ok := x.Fun.(*ast.Ident); ok && (strings.HasPrefix(id.Name, "Null") || strings.HasPrefix(id.Name, "New")) {
				return &jval{kind: "zero"}
			}
			m.fail("call %s", types.ExprString(e))
			return nil
		}
		p, ok := m.fieldPath(s.X)
		if !ok {
			m.fail("call on %s", types.ExprString(s.X))
			return nil
		}
		if it, ok := m.its[p]; ok {
			num := int(p[len(p)-1] - '0')
			switch s.Sel.Name {
			case "Ok":
				return &jval{kind: "bool", b: it.live}
			case "Index":
				if !it.live {
					m.fail("Index() of the exhausted sub-iterator %s is read", p)
					return nil
				}
				if it.pair {
					return &jval{kind: "pair", i: it.i, j: it.j}
				}
				return &jval{kind: "int", i: it.i}
			case "GET", "Get", "GetConst", "GetMagic":
				if !it.live {
					m.fail("element of the exhausted sub-iterator %s is read", p)
					return nil
				}
				return &jval{kind: "elem", k: num}
			case "Next":
				if !it.live {
					m.fail("exhausted sub-iterator %s is advanced", p)
					return nil
				}
				it.advanced++
				return &jval{kind: "unknown"}
			}
		}
		// value getters on elements: unknown
		m.fail("call %s", types.ExprString(e))
	case *ast.CompositeLit:
		return &jval{kind: "nil"} // Float64{} : nil payload
	}
	if m.err == "" {
		m.fail("expression %s", types.ExprString(e))
	}
	return nil
}

func (m *jmodel) assign(lhs ast.Expr, v *jval) {
	switch x := ast.Unparen(lhs).(type) {
	case *ast.Ident:
		if x.Name == "_" {
			return
		}
		o := m.info.Defs[x]
		if o == nil {
			o = m.info.Uses[x]
		}
		m.locals[o] = v
	case *ast.SelectorExpr:
		p, ok := m.fieldPath(x)
		if !ok {
			m.fail("assignment to %s", types.ExprString(lhs))
			return
		}
		p = strings.TrimSuffix(p, ".ptr")
		m.fields[p] = v
	default:
		m.fail("assignment target %s", types.ExprString(lhs))
	}
}

func (m *jmodel) block(list []ast.Stmt) {
	for _, s := range list {
		if m.err != "" || m.done {
			return
		}
		m.stmt(s)
	}
}

func (m *jmodel) stmt(s ast.Stmt) {
	switch x := s.(type) {
	case *ast.AssignStmt:
		if len(x.Lhs) == 2 && len(x.Rhs) == 1 {
			v := m.eval(x.Rhs[0])
			if v == nil {
				return
			}
			if v.kind != "pair" {
				m.fail("tuple from %s", v.kind)
				return
			}
			m.assign(x.Lhs[0], &jval{kind: "int", i: v.i})
			m.assign(x.Lhs[1], &jval{kind: "int", i: v.j})
			return
		}
		if len(x.Lhs) != len(x.Rhs) {
			m.fail("assignment arity")
			return
		}
		var vs []*jval
		for _, r := range x.Rhs {
			v := m.eval(r)
			if v == nil {
				return
			}
			vs = append(vs, v)
		}
		for i, l := range x.Lhs {
			m.assign(l, vs[i])
		}
	case *ast.ExprStmt:
		m.eval(x.X)
	case *ast.IfStmt:
		if x.Init != nil {
			m.stmt(x.Init)
		}
		c := m.eval(x.Cond)
		if c == nil {
			return
		}
		if c.kind != "bool" {
			m.fail("condition %s", c.kind)
			return
		}
		if c.b {
			m.block(x.Body.List)
		} else if x.Else != nil {
			if b, ok := x.Else.(*ast.BlockStmt); ok {
				m.block(b.List)
			} else {
				m.stmt(x.Else)
			}
		}
	case *ast.SwitchStmt:
		if x.Tag != nil {
			m.fail("tagged switch")
			return
		}
		var def *ast.CaseClause
		for _, cs := range x.Body.List {
			cc := cs.(*ast.CaseClause)
			if cc.List == nil {
				def = cc
				continue
			}
			for _, e := range cc.List {
				c := m.eval(e)
				if c == nil {
					return
				}
				if c.kind == "bool" && c.b {
					m.block(cc.Body)
					return
				}
			}
		}
		if def != nil {
			m.block(def.Body)
		}
	case *ast.ReturnStmt:
		m.done = true
	case *ast.BlockStmt:
		m.block(x.List)
	default:
		m.fail("statement %T", s)
	}
}

// jointIteratorTypes lists iterator struct types with fields it1, it2[, it3].
type jointType struct {
	name   string
	n      int
	matrix bool
}

func jointIteratorTypes(pkg *packages.Package) []jointType {
	var res []jointType
	for _, n := range pkg.Types.Scope().Names() {
		tn, ok := pkg.Types.Scope().Lookup(n).(*types.TypeName)
		if !ok || !strings.Contains(n, "Joint") {
			continue
		}
		st, ok := tn.Type().Underlying().(*types.Struct)
		if !ok {
			continue
		}
		nit := 0
		for i := 0; i < st.NumFields(); i++ {
			if strings.HasPrefix(st.Field(i).Name(), "it") && len(st.Field(i).Name()) == 3 {
				nit++
			}
		}
		if nit >= 2 {
			res = append(res, jointType{n, nit, strings.Contains(n, "Matrix")})
		}
	}
	return res
}

// checkMergeStep enumerates liveness x index values and checks the post-condition of Next().
func checkMergeStep(c *core.Ctx, pkg *packages.Package, rule string, jt jointType) {
	info := pkg.TypesInfo
	fd := core.FindMethod(pkg, jt.name, "Next")
	cons := "(*" + jt.name + ").Next"
	if fd == nil {
		c.Unknown(rule, cons, "present", token.NoPos, "Next() not found")
		return
	}
	okFd := core.FindMethod(pkg, jt.name, "Ok")
	ranks := []int{0, 1, 2}
	type idx struct{ i, j int }
	var idxs []idx
	if jt.matrix {
		for _, a := range []int{0, 1} {
			for _, b := range []int{0, 1} {
				idxs = append(idxs, idx{a, b})
			}
		}
	} else {
		for _, r := range ranks {
			idxs = append(idxs, idx{r, 0})
		}
	}
	ncases, nbad := 0, 0
	first := ""
	okMismatch := ""
	var rec func(k int, live []bool, ix []idx)
	rec = func(k int, live []bool, ix []idx) {
		if k == jt.n {
			ncases++
			m := &jmodel{info: info, its: map[string]*jiter{}, fields: map[string]*jval{}, locals: map[types.Object]*jval{}}
			m.recv = info.Defs[fd.Recv.List[0].Names[0]]
			for q := 0; q < jt.n; q++ {
				m.its[fmt.Sprintf("it%d", q+1)] = &jiter{live: live[q], i: ix[q].i, j: ix[q].j, pair: jt.matrix}
				// stale elements from the previous step
				m.fields[fmt.Sprintf("s%d", q+1)] = &jval{kind: "elem", k: 9}
			}
			m.fields["idx"] = &jval{kind: "int", i: -1}
			m.fields["i"] = &jval{kind: "int", i: -1}
			m.fields["j"] = &jval{kind: "int", i: -1}
			m.block(fd.Body.List)
			desc := func() string {
				var s []string
				for q := 0; q < jt.n; q++ {
					if live[q] {
						if jt.matrix {
							s = append(s, fmt.Sprintf("it%d@(%d,%d)", q+1, ix[q].i, ix[q].j))
						} else {
							s = append(s, fmt.Sprintf("it%d@%d", q+1, ix[q].i))
						}
					} else {
						s = append(s, fmt.Sprintf("it%d exhausted", q+1))
					}
				}
				return strings.Join(s, " ")
			}
			bad := m.err
			if bad == "" {
				// minimum
				any := false
				var mn idx
				for q := 0; q < jt.n; q++ {
					if live[q] && (!any || ix[q].i < mn.i || (ix[q].i == mn.i && ix[q].j < mn.j)) {
						mn = ix[q]
						any = true
					}
				}
				for q := 0; q < jt.n && bad == ""; q++ {
					want := any && live[q] && ix[q] == mn
					s := m.fields[fmt.Sprintf("s%d", q+1)]
					got := s != nil && s.kind == "elem"
					if got && s.k != q+1 {
						bad = fmt.Sprintf("s%d holds a stale element or the element of another operand", q+1)
					} else if got != want {
						bad = fmt.Sprintf("s%d present=%v, expected %v", q+1, got, want)
					}
					adv := m.its[fmt.Sprintf("it%d", q+1)].advanced
					wantAdv := 0
					if want {
						wantAdv = 1
					}
					if bad == "" && adv != wantAdv {
						bad = fmt.Sprintf("it%d advanced %d times, expected %d", q+1, adv, wantAdv)
					}
				}
				if bad == "" && any {
					if jt.matrix {
						if m.fields["i"].i != mn.i || m.fields["j"].i != mn.j {
							bad = fmt.Sprintf("position is (%d,%d), expected the minimum (%d,%d)", m.fields["i"].i, m.fields["j"].i, mn.i, mn.j)
						}
					} else if m.fields["idx"].i != mn.i {
						bad = fmt.Sprintf("index is %d, expected the minimum %d", m.fields["idx"].i, mn.i)
					}
				}
				// Ok() after the step (when it does not read values)
				if bad == "" && okFd != nil {
					m2 := &jmodel{info: info, its: m.its, fields: m.fields, locals: map[types.Object]*jval{}}
					m2.recv = info.Defs[okFd.Recv.List[0].Names[0]]
					if len(okFd.Body.List) == 1 {
						if rs, ok := okFd.Body.List[0].(*ast.ReturnStmt); ok && len(rs.Results) == 1 {
							v := m2.eval(rs.Results[0])
							if v != nil && v.kind == "bool" && v.b != any && okMismatch == "" {
								okMismatch = fmt.Sprintf("after a step with %s Ok() is %v", desc(), v.b)
							}
						}
					}
				}
			}
			if bad != "" {
				nbad++
				if first == "" {
					first = desc() + ": " + bad
				}
			}
			return
		}
		for _, l := range []bool{false, true} {
			if !l {
				rec(k+1, append(append([]bool{}, live...), false), append(append([]idx{}, ix...), idx{}))
				continue
			}
			for _, x := range idxs {
				rec(k+1, append(append([]bool{}, live...), true), append(append([]idx{}, ix...), x))
			}
		}
	}
	rec(0, nil, nil)
	c.Analysed["merge_cases_"+jt.name] = ncases
	c.Check(nbad == 0, rule, cons, "merge step over all liveness/ordering cases", fd.Pos(),
		fmt.Sprintf("%d of %d cases wrong; first: %s", nbad, ncases, first))
	if okFd != nil {
		c.Check(okMismatch == "", rule, "(*"+jt.name+").Ok", "Ok() is true exactly while some operand is live", okFd.Pos(), okMismatch)
	}
}
