package checks

import (
	"fmt"
	"go/token"

	"verif/internal/core"
	"verif/internal/sym"
	"verif/internal/vn"
)

// checkHouseholderVector (C05.R6): householder.Run(x, beta, nu, ...) is interpreted on a generic vector of dimension 2 and 3.
// On every path the reflection P = I - beta nu nu' maps x to r e_1 (components 2.. vanish identically), r^2 = x'x, and r is
// non-negative: it is a square root, or -x_1 on a path guarded by x_1 < 0, or x_1 on a path guarded by not(x_1 < 0) / x_1 >= 0
// (with the other components zero). The tridiagonal reduction stores +||x|| as the new sub-diagonal entry and relies on this.
func checkHouseholderVector(c *core.Ctx) {
	c.Rule("C05.R6", "Householder vector: (I - beta nu nu') x = r e_1 with r^2 = x'x and r >= 0 on every path of householder.Run (generic x, dimension 2 and 3)", 4)
	p := c.Pkg("algorithm/householder")
	cons := "algorithm/householder.Run"
	if p == nil {
		c.Unknown("C05.R6", cons, "package loaded", token.NoPos, "not loaded")
		return
	}
	fd := findFuncDecl(p, "Run")
	if fd == nil {
		c.Unknown("C05.R6", cons, "function found", token.NoPos, "not found")
		return
	}
	d := newDeclIndex(c)
	for _, n := range []int{2, 3} {
		var xs []*sym.Term
		for i := 0; i < n; i++ {
			xs = append(xs, symf("x_%d", i))
		}
		zeros := make([]*sym.Term, n)
		for i := range zeros {
			zeros[i] = symf("stale_nu_%d", i)
		}
		beta := &vn.Loc{Name: "beta", Val: symf("stale_beta"), Consistent: true}
		params := []vn.Value{vn.NewLocalVec(xs...), beta, vn.NewLocalVec(zeros...),
			&vn.Loc{Name: "t1", Val: symf("stale_t1"), Consistent: true}, &vn.Loc{Name: "t2", Val: symf("stale_t2"), Consistent: true}, &vn.Loc{Name: "t3", Val: symf("stale_t3"), Consistent: true}}
		cfg := vn.Config{Pkg: p, TypeName: "Real64", Spec: distSpec, InlineOps: inlineOps, Decl: d.find, MaxDepth: 8, UnrollConst: true, FiniteSyms: true,
			Borrow: c04Borrow(c.Root), ParamList: params, ParamFresh: true}
		paths, und := vn.Run(cfg, fd)
		if und != nil {
			c.Unknown("C05.R6", cons, fmt.Sprintf("interpreted [n=%d]", n), und.Pos, "householder.Run left the interpreter's idiom set: "+und.Msg)
			continue
		}
		for _, pa := range paths {
			detail := fmt.Sprintf("[n=%d] path [%s]", n, clip(pa.CondString(), 200))
			if pa.Panic {
				continue
			}
			bl, _ := pa.Params[1].(*vn.Loc)
			nv, _ := pa.Params[2].(*vn.LocalVec)
			if bl == nil || nv == nil {
				c.Unknown("C05.R6", cons, detail, fd.Pos(), "beta or nu is not what the interpreter bound")
				continue
			}
			nu := make([]*sym.Term, n)
			okv := true
			for i := 0; i < n; i++ {
				cell, has := nv.Cells[sym.Int(int64(i)).String()]
				if !has {
					okv = false
					break
				}
				nu[i] = cell.Val
			}
			if !okv {
				c.Fail("C05.R6", cons, detail, fd.Pos(), "a component of nu is not set")
				continue
			}
			// path facts: x_i = 0 for i >= 1 when the path says sigma == 0 (sum of squares of the tail)
			tailZero := false
			sgn := 0 // sign fact about x_0: -1 (x_0 < 0), +1 (x_0 >= 0), 0 unknown
			for _, cv := range pa.Conds {
				if cv.C.Op == "eq" && cv.V && cv.C.B != nil && (cv.C.B.IsZero() || cv.C.A.IsZero()) {
					tailZero = true
				}
				isX0 := func(t *sym.Term) bool { return t != nil && sym.Equal(t, xs[0]) }
				isZ := func(t *sym.Term) bool { return t != nil && t.IsZero() }
				switch {
				case cv.C.Op == "lt" && isX0(cv.C.A) && isZ(cv.C.B):
					sgn = map[bool]int{true: -1, false: 1}[cv.V]
				case cv.C.Op == "le" && isX0(cv.C.A) && isZ(cv.C.B) && cv.V == false:
					sgn = 1
				case cv.C.Op == "lt" && isZ(cv.C.A) && isX0(cv.C.B) && cv.V:
					sgn = 1
				case cv.C.Op == "le" && isZ(cv.C.A) && isX0(cv.C.B) && cv.V:
					sgn = 1
				}
			}
			sub := map[*sym.Atom]*sym.Term{}
			if tailZero {
				for i := 1; i < n; i++ {
					sub[sym.SymAtom(fmt.Sprintf("x_%d", i))] = sym.Zero()
				}
			}
			ev := func(t *sym.Term) *sym.Term { return foldRoots(sym.Subst(t, sub)) }
			// y = x - beta * nu * (nu'x)
			dot := sym.Zero()
			for i := 0; i < n; i++ {
				dot = sym.Add(dot, sym.Mul(nu[i], xs[i]))
			}
			bad := ""
			y := make([]*sym.Term, n)
			for i := 0; i < n; i++ {
				y[i] = ev(sym.Sub(xs[i], sym.Mul(sym.Mul(bl.Val, nu[i]), dot)))
				if i > 0 && !y[i].IsZero() && bad == "" {
					bad = fmt.Sprintf("component %d of the reflected vector is %s, not zero", i, clip(y[i].String(), 160))
				}
			}
			if bad == "" {
				norm2 := sym.Zero()
				for i := 0; i < n; i++ {
					norm2 = sym.Add(norm2, sym.Mul(xs[i], xs[i]))
				}
				if !sym.Equal(foldRoots(sym.Mul(y[0], y[0])), ev(norm2)) {
					bad = fmt.Sprintf("the square of the first component %s is not x'x", clip(y[0].String(), 160))
				}
			}
			if bad == "" {
				// non-negative: a positive multiple of a square root, or +-x_0 under the matching guard
				nonneg := false
				switch {
				case tailZero && sym.Equal(y[0], xs[0]) && sgn == 1:
					nonneg = true
				case tailZero && sym.Equal(y[0], sym.Neg(xs[0])) && sgn == -1:
					nonneg = true
				case !tailZero:
					ats := y[0].Atoms()
					if len(ats) >= 1 {
						// r = c * pow(V, 1/2) with c > 0
						for _, at := range ats {
							if at.Kind == "pow" {
								q := sym.Div(y[0], sym.ParseAtomString(at.Key()))
								if cc, ok := q.IsConst(); ok && cc.Sign() > 0 {
									nonneg = true
								}
							}
						}
					}
				}
				if !nonneg {
					bad = fmt.Sprintf("the first component of the reflected vector is %s, which the guards of the path do not make non-negative: the reductions that store +||x|| as the new entry (tridiagonalization) then disagree with the accumulated reflections", clip(y[0].String(), 160))
				}
			}
			c.Check(bad == "", "C05.R6", cons, detail, fd.Pos(), bad)
		}
	}
}
