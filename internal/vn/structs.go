package vn

// Struct mode: objects of struct type (distributions with scalar parameter fields), constructors that build them and
// methods that are inlined on them. Used by the C14 check to obtain closed forms of LogPdf bodies: the constructor is
// interpreted first (its success paths give the object's fields as terms over the constructor parameters and the
// validated parameter domain), then the method is interpreted on that object.

import (
	"go/ast"
	"go/token"
	"go/types"
	"sort"
	"strings"

	"verif/internal/sym"
)

// StructVal is a mutable object of struct type; pointers to it are the object itself.
type StructVal struct {
	T      types.Type
	Fields map[string]Value
}

// ErrVal is a non-nil error value.
type ErrVal struct{ Msg string }

// OpaqueVal is a value the interpreter carries but never inspects (scalar type tokens, thread pools).
type OpaqueVal struct{ What string }

// DeclFinder resolves a function object to its declaration and the type information of its package.
type DeclFinder func(fn *types.Func) (*ast.FuncDecl, *types.Info)

func structOf(t types.Type) *types.Struct {
	for {
		switch u := t.(type) {
		case *types.Pointer:
			t = u.Elem()
			continue
		case *types.Named:
			t = u.Underlying()
			continue
		case *types.Struct:
			return u
		}
		return nil
	}
}

// zeroOf returns the zero value of a field type.
func (it *Interp) zeroOf(t types.Type) Value {
	switch u := t.Underlying().(type) {
	case *types.Basic:
		switch {
		case u.Info()&types.IsBoolean != 0:
			return &BoolVal{Known: true, V: false}
		case u.Info()&types.IsNumeric != 0:
			return sym.Zero()
		}
		return &OpaqueVal{"zero " + u.Name()}
	case *types.Struct:
		if isScalarType(t) {
			// value-type scalars (Float64{ptr}) behave like fresh zero scalars
			return it.newLoc("tmp", sym.Zero())
		}
		return &StructVal{T: t, Fields: map[string]Value{}}
	}
	return NilVal{}
}

func (it *Interp) newStruct(t types.Type) *StructVal {
	return &StructVal{T: t, Fields: map[string]Value{}}
}

// field reads a field, following embedded structs for promoted names.
func (it *Interp) field(s *StructVal, name string, pos token.Pos) Value {
	if v, ok := s.Fields[name]; ok {
		return v
	}
	st := structOf(s.T)
	if st == nil {
		it.undecided(pos, "field %s of non-struct", name)
	}
	for i := 0; i < st.NumFields(); i++ {
		f := st.Field(i)
		if f.Name() == name {
			v := it.zeroOf(f.Type())
			s.Fields[name] = v
			return v
		}
	}
	// promoted through an embedded field
	for i := 0; i < st.NumFields(); i++ {
		f := st.Field(i)
		if !f.Embedded() {
			continue
		}
		if structOf(f.Type()) == nil {
			continue
		}
		ev := it.field(s, f.Name(), pos)
		if es, ok := ev.(*StructVal); ok {
			if hasField(es.T, name) {
				return it.field(es, name, pos)
			}
		}
	}
	it.undecided(pos, "unknown field %s", name)
	return nil
}

func hasField(t types.Type, name string) bool {
	st := structOf(t)
	if st == nil {
		return false
	}
	for i := 0; i < st.NumFields(); i++ {
		if st.Field(i).Name() == name {
			return true
		}
		if st.Field(i).Embedded() && hasField(st.Field(i).Type(), name) {
			return true
		}
	}
	return false
}

func (it *Interp) setField(s *StructVal, name string, v Value, pos token.Pos) {
	st := structOf(s.T)
	if st != nil {
		for i := 0; i < st.NumFields(); i++ {
			if st.Field(i).Name() == name {
				s.Fields[name] = v
				return
			}
		}
		for i := 0; i < st.NumFields(); i++ {
			f := st.Field(i)
			if f.Embedded() && hasField(f.Type(), name) {
				if es, ok := it.field(s, f.Name(), pos).(*StructVal); ok {
					it.setField(es, name, v, pos)
					return
				}
			}
		}
	}
	it.undecided(pos, "assignment to unknown field %s", name)
}

// compositeLit evaluates T{...} for struct types.
func (it *Interp) compositeLit(x *ast.CompositeLit) Value {
	tv, ok := it.info.Types[x]
	if !ok {
		it.undecided(x.Pos(), "composite literal without type")
	}
	st := structOf(tv.Type)
	if st == nil {
		// numeric slices: []float64{a, b}
		if slt, isSlice := tv.Type.Underlying().(*types.Slice); isSlice {
			if b, isBasic := slt.Elem().Underlying().(*types.Basic); !isBasic || b.Info()&types.IsNumeric == 0 {
				l := &ListVal{}
				for _, e := range x.Elts {
					l.Elems = append(l.Elems, it.eval(e))
				}
				return l
			}
			sl := &SliceVal{Len: sym.Int(int64(len(x.Elts))), Cells: map[string]*sym.Term{}}
			for i, e := range x.Elts {
				v := it.eval(e)
				if t, ok := v.(*sym.Term); ok {
					sl.Cells[sym.Int(int64(i)).String()] = t
				} else if l, ok := v.(*Loc); ok {
					sl.Cells[sym.Int(int64(i)).String()] = l.Val
				} else {
					it.undecided(e.Pos(), "slice literal element %T", v)
				}
			}
			return sl
		}
		it.undecided(x.Pos(), "composite literal of %s", tv.Type)
	}
	s := it.newStruct(tv.Type)
	for i, e := range x.Elts {
		if kv, ok := e.(*ast.KeyValueExpr); ok {
			s.Fields[kv.Key.(*ast.Ident).Name] = it.eval(kv.Value)
		} else if i < st.NumFields() {
			s.Fields[st.Field(i).Name()] = it.eval(e)
		}
	}
	return s
}

// copyStruct makes a shallow copy (value semantics of `*a = *b` and `r := *obj`).
func copyStruct(s *StructVal) *StructVal {
	r := &StructVal{T: s.T, Fields: map[string]Value{}}
	for k, v := range s.Fields {
		if es, ok := v.(*StructVal); ok {
			if _, isPtr := fieldType(s.T, k).(*types.Pointer); !isPtr {
				r.Fields[k] = copyStruct(es)
				continue
			}
		}
		r.Fields[k] = v
	}
	return r
}

func fieldType(t types.Type, name string) types.Type {
	st := structOf(t)
	if st == nil {
		return nil
	}
	for i := 0; i < st.NumFields(); i++ {
		if st.Field(i).Name() == name {
			return st.Field(i).Type().Underlying()
		}
	}
	return nil
}

// DeepCopy clones an object graph (scalar locations included) so that one constructor result can seed several runs.
func DeepCopy(v Value, memo map[interface{}]Value) Value {
	if memo == nil {
		memo = map[interface{}]Value{}
	}
	switch t := v.(type) {
	case *StructVal:
		if r, ok := memo[t]; ok {
			return r
		}
		r := &StructVal{T: t.T, Fields: map[string]Value{}}
		memo[t] = r
		for k, f := range t.Fields {
			r.Fields[k] = DeepCopy(f, memo)
		}
		return r
	case *Loc:
		if r, ok := memo[t]; ok {
			return r
		}
		r := &Loc{Name: t.Name, Val: t.Val, Consistent: t.Consistent, Written: t.Written, Const: t.Const}
		memo[t] = r
		return r
	case *SliceVal:
		r := &SliceVal{Len: t.Len, Cells: map[string]*sym.Term{}}
		for k, c := range t.Cells {
			r.Cells[k] = c
		}
		return r
	case Tuple:
		var r Tuple
		for _, e := range t {
			r = append(r, DeepCopy(e, memo))
		}
		return r
	case *ListVal:
		if r, ok := memo[t]; ok {
			return r
		}
		r := &ListVal{}
		memo[t] = r
		for _, e := range t.Elems {
			r.Elems = append(r.Elems, DeepCopy(e, memo))
		}
		return r
	case *LocalVec:
		if r, ok := memo[t]; ok {
			return r
		}
		r := &LocalVec{Len: t.Len, Cells: map[string]*Loc{}}
		memo[t] = r
		for k, c := range t.Cells {
			r.Cells[k] = DeepCopy(c, memo).(*Loc)
		}
		return r
	case *LocalMat:
		if r, ok := memo[t]; ok {
			return r
		}
		r := &LocalMat{Rows: t.Rows, Cols: t.Cols, Cells: map[string]*Loc{}}
		memo[t] = r
		for k, c := range t.Cells {
			r.Cells[k] = DeepCopy(c, memo).(*Loc)
		}
		return r
	}
	return v
}

// SubstValue applies a term substitution to every term reachable from v (in place for objects).
func SubstValue(v Value, m map[*sym.Atom]*sym.Term, seen map[interface{}]bool) Value {
	if seen == nil {
		seen = map[interface{}]bool{}
	}
	switch t := v.(type) {
	case *sym.Term:
		return sym.Subst(t, m)
	case *Loc:
		if !seen[t] {
			seen[t] = true
			t.Val = sym.Subst(t.Val, m)
		}
		return t
	case *StructVal:
		if !seen[t] {
			seen[t] = true
			for k, f := range t.Fields {
				t.Fields[k] = SubstValue(f, m, seen)
			}
		}
		return t
	case *SliceVal:
		if !seen[t] {
			seen[t] = true
			t.Len = sym.Subst(t.Len, m)
			for k, c := range t.Cells {
				t.Cells[k] = sym.Subst(c, m)
			}
		}
		return t
	case Tuple:
		for i := range t {
			t[i] = SubstValue(t[i], m, seen)
		}
		return t
	}
	return v
}

// FieldNames lists the fields of an object in sorted order.
func (s *StructVal) FieldNames() []string {
	var r []string
	for k := range s.Fields {
		r = append(r, k)
	}
	sort.Strings(r)
	return r
}

// inlineCall interprets the body of a declared function or method with the given receiver and argument values.
func (it *Interp) inlineCall(fd *ast.FuncDecl, info *types.Info, recv Value, args []Value, pos token.Pos) Value {
	if it.depth >= it.cfg.MaxDepth+6 {
		it.undecided(pos, "inlining depth exceeded at %s", fd.Name.Name)
	}
	frame := map[types.Object]Value{}
	if fd.Recv != nil && len(fd.Recv.List) > 0 && len(fd.Recv.List[0].Names) > 0 {
		frame[info.Defs[fd.Recv.List[0].Names[0]]] = recv
	}
	k := 0
	spread := it.spread
	it.spread = false
	for _, f := range fd.Type.Params.List {
		_, variadic := f.Type.(*ast.Ellipsis)
		for _, n := range f.Names {
			switch {
			case variadic && spread && k < len(args):
				frame[info.Defs[n]] = args[k] // f(xs...)
			case variadic:
				l := &ListVal{}
				if k < len(args) {
					l.Elems = append(l.Elems, args[k:]...)
				}
				frame[info.Defs[n]] = l
			case k < len(args):
				frame[info.Defs[n]] = args[k]
			}
			k++
		}
	}
	// named results
	if fd.Type.Results != nil {
		for _, f := range fd.Type.Results.List {
			for _, n := range f.Names {
				if o := info.Defs[n]; o != nil {
					frame[o] = it.zeroOf(o.Type())
				}
			}
		}
	}
	saveEnv, saveDone, saveRet, saveInfo, saveFd := it.env, it.done, it.ret, it.info, it.fd
	it.env = []map[types.Object]Value{frame}
	it.done, it.ret = false, nil
	it.info = info
	it.depth++
	it.block(fd.Body.List)
	it.depth--
	r := it.ret
	it.env, it.done, it.ret, it.info, it.fd = saveEnv, saveDone, saveRet, saveInfo, saveFd
	if it.path.Panic {
		it.done = true
	}
	if r == nil {
		return NilVal{}
	}
	return r
}

// structMethod handles a method call whose receiver is an object: the body is inlined.
func (it *Interp) structMethod(recv *StructVal, fn *types.Func, call *ast.CallExpr) Value {
	name := fn.Name()
	switch name {
	case "ScalarType", "ElementType", "Type":
		return &OpaqueVal{"scalartype"}
	}
	if it.cfg.Decl == nil {
		it.undecided(call.Pos(), "method %s on object (no declaration finder)", name)
	}
	// interface method on an object of known dynamic type: resolve against the object's type
	target := fn
	if _, isIface := fn.Type().(*types.Signature).Recv().Type().Underlying().(*types.Interface); isIface {
		o, _, _ := types.LookupFieldOrMethod(types.NewPointer(derefType(recv.T)), true, fn.Pkg(), name)
		if m, ok := o.(*types.Func); ok {
			target = m
		}
	}
	fd, info := it.cfg.Decl(target)
	if fd == nil || fd.Body == nil {
		// promoted from an embedded field that holds a modelled value (HmmProbabilityVector{Vector: <local vector>, ...})
		if _, index, _ := types.LookupFieldOrMethod(types.NewPointer(derefType(recv.T)), true, fn.Pkg(), name); len(index) > 1 {
			var cur Value = recv
			for _, ix := range index[:len(index)-1] {
				sv, ok := cur.(*StructVal)
				if !ok {
					break
				}
				st := structOf(sv.T)
				if st == nil || ix >= st.NumFields() {
					break
				}
				cur = it.field(sv, st.Field(ix).Name(), call.Pos())
			}
			if cur != Value(recv) {
				if _, isStruct := cur.(*StructVal); !isStruct {
					return it.methodOn(cur, fn, call)
				}
			}
		}
		it.undecided(call.Pos(), "no body for method %s", name)
	}
	var args []Value
	for _, a := range call.Args {
		args = append(args, it.eval(a))
	}
	it.spread = call.Ellipsis != token.NoPos
	// promoted method: the receiver is the embedded object
	r := Value(recv)
	if fd.Recv != nil && len(fd.Recv.List) > 0 {
		if tv, ok := info.Types[fd.Recv.List[0].Type]; ok {
			want := derefType(tv.Type)
			if !types.Identical(want, derefType(recv.T)) {
				if es := it.embedded(recv, want, call.Pos()); es != nil {
					r = es
				}
			}
		}
	}
	return it.inlineCall(fd, info, r, args, call.Pos())
}

func derefType(t types.Type) types.Type {
	if p, ok := t.(*types.Pointer); ok {
		return p.Elem()
	}
	if p, ok := t.Underlying().(*types.Pointer); ok {
		return p.Elem()
	}
	return t
}

func (it *Interp) embedded(s *StructVal, want types.Type, pos token.Pos) *StructVal {
	st := structOf(s.T)
	if st == nil {
		return nil
	}
	for i := 0; i < st.NumFields(); i++ {
		f := st.Field(i)
		if !f.Embedded() {
			continue
		}
		ev, ok := it.field(s, f.Name(), pos).(*StructVal)
		if !ok {
			continue
		}
		if types.Identical(derefType(f.Type()), want) {
			return ev
		}
		if r := it.embedded(ev, want, pos); r != nil {
			return r
		}
	}
	return nil
}

// libraryFunc inlines a plain function of the library (constructors called by other constructors, helpers).
func (it *Interp) libraryFunc(fn *types.Func, call *ast.CallExpr) (Value, bool) {
	if it.cfg.Decl == nil || fn.Pkg() == nil || !strings.HasPrefix(fn.Pkg().Path(), "github.com/pbenner/autodiff") {
		return nil, false
	}
	fd, info := it.cfg.Decl(fn)
	if fd == nil || fd.Body == nil {
		return nil, false
	}
	var args []Value
	for _, a := range call.Args {
		args = append(args, it.eval(a))
	}
	it.spread = call.Ellipsis != token.NoPos
	return it.inlineCall(fd, info, nil, args, call.Pos()), true
}

// LocalVec is a vector allocated inside the analysed code (NullDenseVector(t, n)): its cells are scalar locations
// keyed by the index term.
type LocalVec struct {
	Len   *sym.Term
	Cells map[string]*Loc
}

func (it *Interp) localVecMethod(v *LocalVec, name string, call *ast.CallExpr) Value {
	switch name {
	case "At", "AT", "ConstAt", "MagicAt":
		k := it.evalTerm(call.Args[0]).String()
		if l, ok := v.Cells[k]; ok {
			return l
		}
		l := it.newLoc("cell", sym.Zero())
		v.Cells[k] = l
		return l
	case "Dim":
		return v.Len
	case "Slice", "ConstSlice", "MagicSlice":
		// sub-vector view: shares the element locations
		if len(call.Args) == 2 {
			i0, ok1 := constIndex(it.evalTerm(call.Args[0]))
			i1, ok2 := constIndex(it.evalTerm(call.Args[1]))
			n, ok3 := constIndex(v.Len)
			if ok1 && ok2 && ok3 {
				if i0 < 0 || i1 > n || i0 > i1 {
					it.path.Panic = true
					it.path.Events = append(it.path.Events, Event{Kind: "panic", Pos: call.Pos(), Msg: "vector slice out of range"})
					it.done = true
					return &LocalVec{Len: sym.Zero(), Cells: map[string]*Loc{}}
				}
				r := &LocalVec{Len: sym.Int(int64(i1 - i0)), Cells: map[string]*Loc{}}
				for k := i0; k < i1; k++ {
					key := sym.Int(int64(k)).String()
					l, has := v.Cells[key]
					if !has {
						l = it.newLoc("cell", sym.Zero())
						v.Cells[key] = l
					}
					r.Cells[sym.Int(int64(k-i0)).String()] = l
				}
				return r
			}
		}
	case "Map":
		if cl, ok := it.eval(call.Args[0]).(*Closure); ok {
			it.mapCells(v, cl, call.Pos())
			return NilVal{}
		}
	case "ElementType":
		return &OpaqueVal{"scalartype"}
	}
	if it.cfg.Borrow != nil {
		if fd, info := it.cfg.Borrow("vector", name); fd != nil && fd.Body != nil {
			var args []Value
			for _, a := range call.Args {
				args = append(args, it.eval(a))
			}
			return it.inlineCall(fd, info, v, args, call.Pos())
		}
	}
	it.undecided(call.Pos(), "method %s on a local vector", name)
	return nil
}

// opaqueMethod: calls on values the interpreter does not model. The configuration readers return symbolic lists.
func (it *Interp) opaqueMethod(o *OpaqueVal, fn *types.Func, call *ast.CallExpr) Value {
	sig := fn.Type().(*types.Signature)
	name := fn.Name()
	if o.What == "config" && sig.Results().Len() == 2 {
		if _, isSlice := sig.Results().At(0).Type().Underlying().(*types.Slice); isSlice {
			tag := "parameters"
			if len(call.Args) == 1 {
				tag = types.ExprString(call.Args[0])
			}
			it.nloc++
			return Tuple{&SliceVal{Len: sym.Sym("len(" + tag + ")"), Cells: map[string]*sym.Term{}, Tag: tag}, &BoolVal{C: &Cond{Op: "param", A: sym.Sym("ok(" + tag + ")")}}}
		}
	}
	if o.What == "pool" {
		// a pool of one thread: the accumulators have one slot and the executing thread is thread 0
		switch name {
		case "NumberOfThreads":
			return sym.One()
		case "GetThreadId":
			return sym.Zero()
		}
	}
	return &OpaqueVal{o.What + "." + name}
}
