package vn

// Lists, range loops, closures as arguments and a hook for calls on opaque values. Used by the checks of the mixture
// code (C15.R4, C16.R3): a thread-temporaries slice `tmp []EmTmp` is a ListVal of objects, the job closure handed to
// AddRangeJob is applied to every index of the range by the hook, `Map(func(x Scalar){...})` is applied to every cell.

import (
	"go/ast"
	"go/token"
	"go/types"

	"verif/internal/sym"
)

// ListVal is a slice of arbitrary values with a known number of elements.
type ListVal struct{ Elems []Value }

// OpaqueHook handles a method call on an opaque value; ok=false falls back to the built-in treatment.
type OpaqueHook func(it *Interp, o *OpaqueVal, name string, args []Value, call *ast.CallExpr) (Value, bool)

// NewLoc allocates a scalar location on the current path (for hooks).
func (it *Interp) NewLoc(name string, v *sym.Term) *Loc { return it.newLoc(name, v) }

// Undecide aborts the run from a hook.
func (it *Interp) Undecide(pos token.Pos, msg string) { it.undecided(pos, "%s", msg) }

// Apply calls a closure with the given argument values.
func (it *Interp) Apply(cl *Closure, args []Value, pos token.Pos) Value {
	if it.depth > 8 {
		it.undecided(pos, "closure depth")
	}
	saveEnv, saveDone, saveRet := it.env, it.done, it.ret
	frame := map[types.Object]Value{}
	k := 0
	if cl.Lit.Type.Params != nil {
		for _, f := range cl.Lit.Type.Params.List {
			for _, n := range f.Names {
				if k < len(args) {
					if o := it.info.Defs[n]; o != nil {
						frame[o] = args[k]
					}
				}
				k++
			}
		}
	}
	it.env = append(append([]map[types.Object]Value{}, cl.Env...), frame)
	it.done, it.ret = false, nil
	it.depth++
	it.block(cl.Lit.Body.List)
	it.depth--
	r := it.ret
	it.env, it.done, it.ret = saveEnv, saveDone, saveRet
	if it.path.Panic {
		it.done = true
	}
	if r == nil {
		return NilVal{}
	}
	return r
}

func constIndex(t *sym.Term) (int, bool) {
	c, ok := t.IsConst()
	if !ok || !c.IsInt() || !c.Num().IsInt64() {
		return 0, false
	}
	return int(c.Num().Int64()), true
}

func (it *Interp) listIndex(l *ListVal, idx ast.Expr) int {
	t := it.evalTerm(idx)
	k, ok := constIndex(t)
	if !ok {
		it.undecided(idx.Pos(), "list index %s is not a constant", t)
	}
	if k < 0 || k >= len(l.Elems) {
		it.undecided(idx.Pos(), "list index %d out of range", k)
	}
	return k
}

// rangeStmt unrolls `for k, v := range xs` over lists and numeric slices of constant length.
func (it *Interp) rangeStmt(x *ast.RangeStmt) {
	it.env = append(it.env, map[types.Object]Value{})
	defer func() {
		if len(it.env) > 0 {
			it.env = it.env[:len(it.env)-1]
		}
	}()
	base := it.eval(x.X)
	var elems []Value
	switch b := base.(type) {
	case *ListVal:
		elems = b.Elems
	case *SliceVal:
		n, ok := constIndex(b.Len)
		if !ok || n > 16 {
			it.undecided(x.Pos(), "range over a slice of symbolic length")
		}
		for i := 0; i < n; i++ {
			k := sym.Int(int64(i)).String()
			if v, ok := b.Cells[k]; ok {
				elems = append(elems, v)
			} else if b.Zero {
				elems = append(elems, sym.Zero())
			} else {
				elems = append(elems, sym.Fn("cell", sym.Sym(k)))
			}
		}
	case NilVal:
		return
	case *sym.Term:
		// range over an integer (Go 1.22): 0 .. n-1
		n, ok := constIndex(b)
		if !ok || n > 64 {
			it.undecided(x.Pos(), "range over a symbolic integer")
		}
		for i := 0; i < n; i++ {
			elems = append(elems, sym.Int(int64(i)))
		}
		if x.Value != nil {
			it.undecided(x.Pos(), "range over an integer with a value variable")
		}
	case *LocalVec:
		n, ok := constIndex(b.Len)
		if !ok || n > 64 {
			it.undecided(x.Pos(), "range over a local vector of symbolic length")
		}
		for i := 0; i < n; i++ {
			k := sym.Int(int64(i)).String()
			c, has := b.Cells[k]
			if !has {
				c = it.newLoc("cell", sym.Zero())
				b.Cells[k] = c
			}
			elems = append(elems, c)
		}
	default:
		it.undecided(x.Pos(), "range over %T", base)
	}
	bind := func(e ast.Expr, v Value) {
		if e == nil {
			return
		}
		it.assignTo(e, v, x.Tok == token.DEFINE)
	}
	it.unrolled++
	defer func() { it.unrolled-- }()
	for i, v := range elems {
		if it.done {
			return
		}
		bind(x.Key, sym.Int(int64(i)))
		bind(x.Value, v)
		it.block(x.Body.List)
		if it.ctl == "break" {
			it.ctl = ""
			break
		}
		it.ctl = ""
	}
}

// mapCells applies a closure to every cell of a local vector.
func (it *Interp) mapCells(v *LocalVec, cl *Closure, pos token.Pos) {
	n, ok := constIndex(v.Len)
	if !ok || n > 64 {
		it.undecided(pos, "Map over a local vector of symbolic length")
	}
	for i := 0; i < n; i++ {
		k := sym.Int(int64(i)).String()
		l, ok := v.Cells[k]
		if !ok {
			l = it.newLoc("cell", sym.Zero())
			v.Cells[k] = l
		}
		it.Apply(cl, []Value{l}, pos)
	}
}

// NewLocalVec builds a local vector whose cells hold the given terms (for check set-ups).
func NewLocalVec(vals ...*sym.Term) *LocalVec {
	v := &LocalVec{Len: sym.Int(int64(len(vals))), Cells: map[string]*Loc{}}
	for i, t := range vals {
		v.Cells[sym.Int(int64(i)).String()] = &Loc{Name: "cell", Val: t, Consistent: true}
	}
	return v
}

// Cell returns the value of cell i of a local vector (nil if never written).
func (v *LocalVec) Cell(i int) *sym.Term {
	if l, ok := v.Cells[sym.Int(int64(i)).String()]; ok {
		return l.Val
	}
	return nil
}

// unrollDown handles `for k := hi; k >= lo; k--` (and `k > lo`) with constant bounds by concrete unrolling.
func (it *Interp) unrollDown(x *ast.ForStmt, obj types.Object, start *sym.Term) bool {
	inc, ok := x.Post.(*ast.IncDecStmt)
	if !ok || inc.Tok != token.DEC {
		return false
	}
	if pid, ok := inc.X.(*ast.Ident); !ok || it.info.Uses[pid] != obj {
		return false
	}
	be, ok := x.Cond.(*ast.BinaryExpr)
	if !ok || (be.Op != token.GEQ && be.Op != token.GTR) {
		return false
	}
	if cid, ok := be.X.(*ast.Ident); !ok || it.info.Uses[cid] != obj {
		return false
	}
	a, okA := constIndex(start)
	lo, okB := constIndex(it.evalTerm(be.Y))
	if !okA || !okB {
		it.undecided(x.Pos(), "downward loop with symbolic bounds")
	}
	if be.Op == token.GTR {
		lo++
	}
	if a-lo > 64 {
		it.undecided(x.Pos(), "downward loop too long")
	}
	it.unrolled++
	defer func() { it.unrolled-- }()
	for v := a; v >= lo && !it.done; v-- {
		it.setVar(obj, sym.Int(int64(v)), true)
		it.block(x.Body.List)
		if it.ctl == "break" {
			it.ctl = ""
			break
		}
		it.ctl = ""
	}
	return true
}

// LocalMat is a matrix allocated inside the analysed code or handed in by a check set-up: cells are scalar locations.
type LocalMat struct {
	Rows, Cols int
	Cells      map[string]*Loc
}

// NewLocalMat builds a rows x cols local matrix with cell (i,j) holding f(i,j).
func NewLocalMat(rows, cols int, f func(i, j int) *sym.Term) *LocalMat {
	m := &LocalMat{Rows: rows, Cols: cols, Cells: map[string]*Loc{}}
	for i := 0; i < rows; i++ {
		for j := 0; j < cols; j++ {
			m.Cells[matKey(i, j)] = &Loc{Name: "cell", Val: f(i, j), Consistent: true}
		}
	}
	return m
}

func matKey(i, j int) string { return sym.Int(int64(i)).String() + "," + sym.Int(int64(j)).String() }

// Cell returns the value of cell (i,j) (nil if out of range).
func (m *LocalMat) Cell(i, j int) *sym.Term {
	if l, ok := m.Cells[matKey(i, j)]; ok {
		return l.Val
	}
	return nil
}

func (it *Interp) localMatMethod(m *LocalMat, name string, call *ast.CallExpr) Value {
	switch name {
	case "At", "AT", "ConstAt", "MagicAt":
		i, ok1 := constIndex(it.evalTerm(call.Args[0]))
		j, ok2 := constIndex(it.evalTerm(call.Args[1]))
		if !ok1 || !ok2 {
			it.undecided(call.Pos(), "local matrix index is not a constant")
		}
		if i < 0 || j < 0 || i >= m.Rows || j >= m.Cols {
			it.path.Panic = true
			it.path.Events = append(it.path.Events, Event{Kind: "panic", Pos: call.Pos(), Msg: "matrix index out of range"})
			it.done = true
			return it.newLoc("oob", sym.Zero())
		}
		return m.Cells[matKey(i, j)]
	case "Dims":
		return Tuple{sym.Int(int64(m.Rows)), sym.Int(int64(m.Cols))}
	case "Map":
		if cl, ok := it.eval(call.Args[0]).(*Closure); ok {
			for i := 0; i < m.Rows; i++ {
				for j := 0; j < m.Cols; j++ {
					it.Apply(cl, []Value{m.Cells[matKey(i, j)]}, call.Pos())
				}
			}
			return NilVal{}
		}
	case "ElementType":
		return &OpaqueVal{"scalartype"}
	case "CloneMatrix", "CloneConstMatrix", "CloneMagicMatrix":
		r := &LocalMat{Rows: m.Rows, Cols: m.Cols, Cells: map[string]*Loc{}}
		for k, c := range m.Cells {
			r.Cells[k] = it.newLoc("cell", c.Val)
		}
		return r
	case "Slice", "ConstSlice", "MagicSlice":
		// sub-matrix view: shares the element locations
		if len(call.Args) == 4 {
			r0, ok1 := constIndex(it.evalTerm(call.Args[0]))
			r1, ok2 := constIndex(it.evalTerm(call.Args[1]))
			c0, ok3 := constIndex(it.evalTerm(call.Args[2]))
			c1, ok4 := constIndex(it.evalTerm(call.Args[3]))
			if !ok1 || !ok2 || !ok3 || !ok4 {
				it.undecided(call.Pos(), "local matrix slice bound is not a constant")
			}
			if r0 < 0 || c0 < 0 || r1 > m.Rows || c1 > m.Cols || r0 > r1 || c0 > c1 {
				it.path.Panic = true
				it.path.Events = append(it.path.Events, Event{Kind: "panic", Pos: call.Pos(), Msg: "matrix slice out of range"})
				it.done = true
				return &LocalMat{Cells: map[string]*Loc{}}
			}
			r := &LocalMat{Rows: r1 - r0, Cols: c1 - c0, Cells: map[string]*Loc{}}
			for i := r0; i < r1; i++ {
				for j := c0; j < c1; j++ {
					r.Cells[matKey(i-r0, j-c0)] = m.Cells[matKey(i, j)]
				}
			}
			return r
		}
	case "Col", "Row":
		// writable views share the element locations as well
		k, ok := constIndex(it.evalTerm(call.Args[0]))
		if !ok {
			it.undecided(call.Pos(), "local matrix row/column index is not a constant")
		}
		n := m.Rows
		if name == "Row" {
			n = m.Cols
		}
		v := &LocalVec{Len: sym.Int(int64(n)), Cells: map[string]*Loc{}}
		for i := 0; i < n; i++ {
			if name == "Col" {
				v.Cells[sym.Int(int64(i)).String()] = m.Cells[matKey(i, k)]
			} else {
				v.Cells[sym.Int(int64(i)).String()] = m.Cells[matKey(k, i)]
			}
		}
		return v
	case "ConstCol", "ConstRow":
		// read-only views share the element locations
		k, ok := constIndex(it.evalTerm(call.Args[0]))
		if !ok {
			it.undecided(call.Pos(), "local matrix row/column index is not a constant")
		}
		n := m.Rows
		if name == "ConstRow" {
			n = m.Cols
		}
		v := &LocalVec{Len: sym.Int(int64(n)), Cells: map[string]*Loc{}}
		for i := 0; i < n; i++ {
			if name == "ConstCol" {
				v.Cells[sym.Int(int64(i)).String()] = m.Cells[matKey(i, k)]
			} else {
				v.Cells[sym.Int(int64(i)).String()] = m.Cells[matKey(k, i)]
			}
		}
		return v
	case "T", "MagicT", "ConstT":
		// transposed view: shares the element locations
		r := &LocalMat{Rows: m.Cols, Cols: m.Rows, Cells: map[string]*Loc{}}
		for i := 0; i < m.Rows; i++ {
			for j := 0; j < m.Cols; j++ {
				r.Cells[matKey(j, i)] = m.Cells[matKey(i, j)]
			}
		}
		return r
	case "Set":
		if src, ok := it.eval(call.Args[0]).(*LocalMat); ok && src.Rows == m.Rows && src.Cols == m.Cols {
			for k, c := range src.Cells {
				m.Cells[k].Val = c.Val
				m.Cells[k].Written = true
			}
			return NilVal{}
		}
	case "SetIdentity":
		for i := 0; i < m.Rows; i++ {
			for j := 0; j < m.Cols; j++ {
				v := sym.Zero()
				if i == j {
					v = sym.One()
				}
				m.Cells[matKey(i, j)].Val = v
			}
		}
		return NilVal{}
	case "MdotM":
		a, ok1 := it.eval(call.Args[0]).(*LocalMat)
		b, ok2 := it.eval(call.Args[1]).(*LocalMat)
		if ok1 && ok2 && a.Cols == b.Rows && m.Rows == a.Rows && m.Cols == b.Cols {
			vals := map[string]*sym.Term{}
			for i := 0; i < m.Rows; i++ {
				for j := 0; j < m.Cols; j++ {
					s := sym.Zero()
					for k := 0; k < a.Cols; k++ {
						s = sym.Add(s, sym.Mul(a.Cells[matKey(i, k)].Val, b.Cells[matKey(k, j)].Val))
					}
					vals[matKey(i, j)] = s
				}
			}
			for k, v := range vals {
				m.Cells[k].Val = v
				m.Cells[k].Written = true
			}
			return m
		}
	case "SwapRows", "SwapColumns":
		a, ok1 := constIndex(it.evalTerm(call.Args[0]))
		b, ok2 := constIndex(it.evalTerm(call.Args[1]))
		if !ok1 || !ok2 {
			it.undecided(call.Pos(), "local matrix swap index is not a constant")
		}
		if name == "SwapRows" {
			for j := 0; j < m.Cols; j++ {
				m.Cells[matKey(a, j)], m.Cells[matKey(b, j)] = m.Cells[matKey(b, j)], m.Cells[matKey(a, j)]
			}
		} else {
			for i := 0; i < m.Rows; i++ {
				m.Cells[matKey(i, a)], m.Cells[matKey(i, b)] = m.Cells[matKey(i, b)], m.Cells[matKey(i, a)]
			}
		}
		return NilVal{}
	}
	if it.cfg.Borrow != nil {
		if fd, info := it.cfg.Borrow("matrix", name); fd != nil && fd.Body != nil {
			var args []Value
			for _, a := range call.Args {
				args = append(args, it.eval(a))
			}
			return it.inlineCall(fd, info, m, args, call.Pos())
		}
	}
	it.undecided(call.Pos(), "method %s on a local matrix", name)
	return nil
}

// NewLocalMatOn allocates a zero matrix whose cells are locations of the current path.
func NewLocalMatOn(it *Interp, rows, cols int) *LocalMat {
	m := &LocalMat{Rows: rows, Cols: cols, Cells: map[string]*Loc{}}
	for i := 0; i < rows; i++ {
		for j := 0; j < cols; j++ {
			m.Cells[matKey(i, j)] = it.newLoc("cell", sym.Zero())
		}
	}
	return m
}

// concreteLoop executes a for loop concretely while its condition is decided: downward loops, cycle-following loops
// (`for j := i; !done[j]; j = pi[j]`) and counted loops over constants. Returns false, without having run the body, if
// the condition is not decided at entry (the symbolic treatment takes over).
func (it *Interp) concreteLoop(x *ast.ForStmt) bool {
	it.env = append(it.env, map[types.Object]Value{})
	pop := func() {
		if len(it.env) > 0 {
			it.env = it.env[:len(it.env)-1]
		}
	}
	if x.Init != nil {
		if as, ok := x.Init.(*ast.AssignStmt); ok && len(as.Rhs) == 1 {
			// iterator loops are not concrete
			if _, isCall := ast.Unparen(as.Rhs[0]).(*ast.CallExpr); isCall {
				pop()
				return false
			}
		}
		it.stmt(x.Init)
	}
	decided := func() (bool, bool) {
		if x.Cond == nil {
			return true, true // for { ... }: left by break, return or panic
		}
		c := it.evalBool(x.Cond)
		for c != nil && !c.Known && c.Op == "not" && c.L != nil && c.L.Known {
			c = &BoolVal{Known: true, V: !c.L.V}
		}
		if c == nil || !c.Known {
			return false, false
		}
		return c.V, true
	}
	v, ok := decided()
	if !ok {
		pop()
		return false
	}
	defer pop()
	it.unrolled++
	defer func() { it.unrolled-- }()
	for n := 0; v && !it.done; n++ {
		if n > 4096 {
			it.undecided(x.Pos(), "concrete loop does not terminate within 4096 cycles")
		}
		it.block(x.Body.List)
		if it.ctl == "break" {
			it.ctl = ""
			break
		}
		it.ctl = ""
		if it.done {
			break
		}
		if x.Post != nil {
			it.stmt(x.Post)
		}
		v, ok = decided()
		if !ok {
			it.undecided(x.Pos(), "loop condition becomes data-dependent")
		}
	}
	return true
}

// dynNamed returns the named type a value dynamically has, if the interpreter knows it.
func dynNamed(v Value) *types.Named {
	switch t := v.(type) {
	case *StructVal:
		return namedOf(derefType(t.T))
	}
	return nil
}

// hasDynType: does the value's dynamic type match want (pointer-ness is not tracked for objects: T and *T both match)?
func (it *Interp) hasDynType(v Value, want types.Type) bool {
	wn := namedOf(derefType(want))
	if wn == nil {
		// interface targets: any modelled value satisfies a container/scalar interface
		_, isIface := want.Underlying().(*types.Interface)
		return isIface
	}
	if _, isIface := wn.Underlying().(*types.Interface); isIface {
		return true
	}
	if dn := dynNamed(v); dn != nil {
		return dn.Obj() == wn.Obj()
	}
	return false // local vectors/matrices, numbers: not one of the concrete library types
}

// typeSwitch: `switch a := v.(type) { case T: ... }` decided from the dynamic type of v. When both T and *T are listed
// (option structs: `case *InSitu:` and `case InSitu: panic("must be passed by reference")`) the clause that does not
// panic immediately is taken, i.e. the value is assumed to have been passed the way the API asks for.
func (it *Interp) typeSwitch(x *ast.TypeSwitchStmt) {
	it.env = append(it.env, map[types.Object]Value{})
	defer func() {
		if len(it.env) > 0 {
			it.env = it.env[:len(it.env)-1]
		}
	}()
	if x.Init != nil {
		it.stmt(x.Init)
	}
	var subject ast.Expr
	var bindName *ast.Ident
	switch a := x.Assign.(type) {
	case *ast.AssignStmt:
		if len(a.Lhs) == 1 && len(a.Rhs) == 1 {
			bindName, _ = a.Lhs[0].(*ast.Ident)
			if ta, ok := ast.Unparen(a.Rhs[0]).(*ast.TypeAssertExpr); ok {
				subject = ta.X
			}
		}
	case *ast.ExprStmt:
		if ta, ok := ast.Unparen(a.X).(*ast.TypeAssertExpr); ok {
			subject = ta.X
		}
	}
	if subject == nil {
		it.undecided(x.Pos(), "type switch form")
	}
	v := it.eval(subject)
	var def *ast.CaseClause
	var cands []*ast.CaseClause
	for _, cs := range x.Body.List {
		cc := cs.(*ast.CaseClause)
		if cc.List == nil {
			def = cc
			continue
		}
		for _, te := range cc.List {
			if id, ok := te.(*ast.Ident); ok && id.Name == "nil" {
				if _, isNil := v.(NilVal); isNil {
					cands = append(cands, cc)
				}
				continue
			}
			tv, ok := it.info.Types[te]
			if !ok {
				continue
			}
			if _, isNil := v.(NilVal); isNil {
				continue
			}
			if wn := namedOf(derefType(tv.Type)); wn != nil {
				if _, isIface := wn.Underlying().(*types.Interface); isIface {
					continue // interface cases are not decided here
				}
				if dn := dynNamed(v); dn != nil && dn.Obj() == wn.Obj() {
					cands = append(cands, cc)
				}
			}
		}
	}
	pick := def
	if len(cands) == 1 {
		pick = cands[0]
	} else if len(cands) > 1 {
		pick = cands[0]
		for _, cc := range cands {
			panics := false
			if len(cc.Body) > 0 {
				if es, ok := cc.Body[0].(*ast.ExprStmt); ok {
					if ce, ok := es.X.(*ast.CallExpr); ok {
						if id, ok := ce.Fun.(*ast.Ident); ok && id.Name == "panic" {
							panics = true
						}
					}
				}
			}
			if !panics {
				pick = cc
				break
			}
		}
	}
	if pick == nil {
		return
	}
	if bindName != nil && bindName.Name != "_" {
		// the symbol declared by the switch is a distinct object per clause
		if o := it.info.Implicits[pick]; o != nil {
			it.env[len(it.env)-1][o] = v
		}
	}
	it.block(pick.Body)
}
