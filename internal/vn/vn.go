// Package vn is engine E3: value numbering of scalar code. It interprets the
// typed AST of scalar operation methods over symbolic terms (package sym):
// float locals map to terms, scalar objects to abstract locations holding a
// value term; undecidable branches are enumerated as paths with recorded
// conditions; counted loops are recognised as accumulate idioms.
package vn

import (
	"fmt"
	"go/ast"
	"go/constant"
	"go/token"
	"go/types"
	"math/big"
	"strings"

	"golang.org/x/tools/go/packages"

	"verif/internal/sym"
)

// Loc is an abstract scalar object.
type Loc struct {
	Name string
	Val  *sym.Term
	// Consistent: derivative state follows from the value history (ops, Set, Reset, constants).
	// false after SetFloat64(v) with a v that depends on operand values.
	Consistent bool
	Written    bool
	Const      bool // created from a constant constructor (ConstFloat64(1.0) ...)
}

// Container is a vector/matrix operand.
type Container struct {
	Name string
	Sym  *sym.Term
	Rank int // 1 vector, 2 matrix
	// DimSym: the container whose extents this one has (a private copy has the extents of its source); nil = Sym
	DimSym *sym.Term
}

func (c *Container) dimSym() *sym.Term {
	if c.DimSym != nil {
		return c.DimSym
	}
	return c.Sym
}

// Closure is a function literal with its defining environment.
type Closure struct {
	Lit *ast.FuncLit
	Env []map[types.Object]Value
}

// IterVal is an iterator over a container bound to a loop.
type IterVal struct {
	C   *Container
	Idx *sym.Term
}

// Cond is a recorded branch condition.
type Cond struct {
	Op   string // lt le gt ge eq ne isinf isnan
	A, B *sym.Term
	Arg  int // sign argument of isinf
}

func (c *Cond) String() string {
	if c.Op == "isinf" {
		return fmt.Sprintf("isinf(%s,%d)", c.A, c.Arg)
	}
	if c.B == nil {
		return fmt.Sprintf("%s(%s)", c.Op, c.A)
	}
	return fmt.Sprintf("%s(%s, %s)", c.Op, c.A, c.B)
}

// CondV is a condition with the truth value taken on the path.
type CondV struct {
	C *Cond
	V bool
}

func (c CondV) String() string {
	if c.V {
		return c.C.String()
	}
	return "!" + c.C.String()
}

// BoolVal is a boolean abstract value.
type BoolVal struct {
	Known bool
	V     bool
	C     *Cond // when !Known: atom
	// composite
	Op   string // "and" "or" "not"
	L, R *BoolVal
}

// Tuple of values (multi-return).
type Tuple []Value

// Value is one of *sym.Term, *Loc, *Container, *Closure, *IterVal, *BoolVal, Tuple, NilVal, *ArrVal.
type Value interface{}

type NilVal struct{}

// SliceVal is a local numeric slice (make([]T, n)): cells keyed by the index term.
type SliceVal struct {
	Len   *sym.Term
	Cells map[string]*sym.Term
	Tag   string // symbolic lists read from a configuration: unknown cells are cell(tag, k)
	Zero  bool   // allocated by make: cells never stored hold the zero value
}

// ArrVal is a fixed array of scalar temporaries (t [3]Scalar).
type ArrVal struct{ Elems []*Loc }

// Event records one operation on a scalar location.
type Event struct {
	Kind     string // "prim" (combinator call), "op" (spec-applied op), "set", "reset", "setfloat", "panic"
	Op       string
	Recv     *Loc
	Operands []*Loc
	V        []*sym.Term // prim: v0,v1,v2 | v0,v10,v01,v11,v20,v02
	Comb     string
	Pos      token.Pos
	Msg      string
	Idx      []*sym.Term // sethess / setderiv indices
	Loops    []LoopCtx
}

// Path is one enumerated execution path.
// KernelFact: inside the given loops, element Idx of container Cont receives Val.
type KernelFact struct {
	Cont  string
	Idx   []*sym.Term
	Val   *sym.Term
	Loops []LoopCtx
}

func (k KernelFact) String() string {
	var ix []string
	for _, i := range k.Idx {
		ix = append(ix, i.String())
	}
	var ls []string
	for _, l := range k.Loops {
		ls = append(ls, l.Var+"="+l.Lo.String()+".."+l.Hi.String())
	}
	return "for " + strings.Join(ls, ",") + ": " + k.Cont + "[" + strings.Join(ix, ",") + "] := " + k.Val.String()
}

// Access is one element access (read or write) of a container, with the loops it is nested in.
type Access struct {
	Cont  *sym.Term
	Idx   []*sym.Term
	Loops []LoopCtx
	Pos   token.Pos
}

type Path struct {
	Accesses []Access
	Facts    []KernelFact
	Conds    []CondV
	Events   []Event
	Ret      Value
	Panic    bool
	Recv     *Loc
	Params   []Value
	Locs     []*Loc
	// RecvObj: the receiver object of this path (struct mode; a fresh copy per path when RecvFresh is set)
	RecvObj *StructVal
	// Env, Ctl: see Config.Body
	Env map[types.Object]Value
	Ctl string
}

func (p *Path) CondString() string {
	var s []string
	for _, c := range p.Conds {
		s = append(s, c.String())
	}
	return strings.Join(s, " && ")
}

// Undecided is raised (via panic/recover) when the interpreter leaves its idiom set.
type Undecided struct {
	Msg string
	Pos token.Pos
}

// Config controls a run.
type Config struct {
	Pkg *packages.Package
	// TypeName is the scalar type whose methods are used to resolve calls on interface-typed scalars.
	TypeName string
	// Alias: parameter indices identified with the receiver.
	Alias []int
	// Groups: alias groups over scalar parameters; -1 denotes the receiver. Members of a group share one location.
	Groups [][]int
	// MaxDepth of inlining.
	MaxDepth int
	// Spec returns the defined value of a scalar operation by (case-folded) name; ok=false if unknown.
	Spec func(name string, args []*sym.Term, extra []Value) (*sym.Term, bool)
	// InlineOps: operation names (lower case) whose bodies are inlined instead of spec-applied.
	InlineOps map[string]bool
	// KernelMode: container elements are locations cached by (container, index); writes to elements inside
	// counted loops are recorded as kernel facts "element idx of container := value" when the loop closes.
	KernelMode bool
	// Decl resolves library functions/methods to their declarations (struct mode: object methods and constructors are inlined).
	Decl DeclFinder
	// RecvStruct: the receiver of the analysed method is this object (struct mode).
	RecvStruct *StructVal
	// ParamValues: pre-bound parameter values by name (struct mode: an object passed to a wrapper's constructor).
	ParamValues map[string]Value
	// UnrollConst: counted loops with constant bounds are unrolled concretely (estimator accumulators over a pool of one thread).
	UnrollConst bool
	// IntSyms: symbols known to denote integers (trunc(s) = s).
	IntSyms map[string]bool
	// RecvFresh: every enumerated path starts from a deep copy of RecvStruct (methods may update scratch fields).
	RecvFresh bool
	// ParamNames: symbols for parameters are their source names instead of p0, p1, ... (struct mode constructors).
	ParamNames bool
	// ParamSyms: symbol names for the parameters by position (overrides ParamNames where non-empty), so that the
	// result does not depend on how the analysed code names its parameters.
	ParamSyms []string
	// ParamList: pre-bound parameter values by position (nil entries are not bound); takes precedence over ParamValues.
	ParamList []Value
	// ParamFresh: every enumerated path starts from a deep copy of ParamValues (sharing between them preserved).
	ParamFresh bool
	// Opaque handles method calls on opaque values (data sets, thread pools) before the built-in treatment.
	Opaque OpaqueHook
	// Borrow resolves a method that a local vector ("vector") or local matrix ("matrix") does not model to the
	// declaration of a concrete container type; the body is interpreted with the local object as receiver.
	Borrow func(kind, name string) (*ast.FuncDecl, *types.Info)
	// CallHook: consulted first for every resolved plain function call; a non-nil result handles the call with the
	// evaluated arguments (routines modelled as opaque atoms, or related to one another by a stated identity).
	CallHook func(fn *types.Func) func(args []Value) Value
	// Body: when non-nil these statements (a loop body of the function) are interpreted instead of the function body;
	// Env pre-binds the variables they read (copied per path). The path records the final values of the pre-bound
	// variables (Path.Env) and how the statements were left (Path.Ctl: "", "break", "continue").
	Body []ast.Stmt
	Env  map[types.Object]Value
	// GlobalSyms: package-level numeric variables are read as symbols of their own name.
	GlobalSyms bool
	// GlobalVals: values of named package-level variables (an iteration limit bound to a small constant).
	GlobalVals map[string]*sym.Term
	// FiniteSyms: symbolic terms denote finite numbers, so comparisons with the symbol -Inf are decided (x > -Inf).
	FiniteSyms bool
}

type Interp struct {
	cfg       Config
	info      *types.Info
	env       []map[types.Object]Value
	path      *Path
	choices   []bool
	made      []bool
	depth     int
	done      bool
	ret       Value
	nloc      int
	fd        *ast.FuncDecl
	loopVar   map[types.Object]bool
	loopDepth int
	// ctl: pending "continue"/"break" inside a concretely unrolled loop
	ctl      string
	unrolled int
	// spread: the call being inlined passes its last argument with `...`
	spread bool
	// Loops currently open (outermost first), for events recorded inside loops.
	loops     []LoopCtx
	curPos    token.Pos
	elemCache map[string]*Loc
	elemMeta  map[*Loc]*elemInfo
}

// LoopCtx describes an enclosing counted loop: bound symbol and inclusive bounds.
type LoopCtx struct {
	Var    string
	Lo, Hi *sym.Term
}

func (it *Interp) undecided(pos token.Pos, f string, a ...interface{}) {
	panic(&Undecided{Msg: fmt.Sprintf(f, a...), Pos: pos})
}

// Run enumerates all paths through method fd.
func Run(cfg Config, fd *ast.FuncDecl) (paths []*Path, und *Undecided) {
	if cfg.MaxDepth == 0 {
		cfg.MaxDepth = 3
	}
	var choices []bool
	for n := 0; n < 4096; n++ {
		it := &Interp{cfg: cfg, info: cfg.Pkg.TypesInfo, choices: choices, fd: fd, loopVar: map[types.Object]bool{}}
		p, u := it.runOnce(fd)
		if u != nil {
			return nil, u
		}
		paths = append(paths, p)
		// next choice vector
		m := it.made
		for len(m) > 0 && m[len(m)-1] {
			m = m[:len(m)-1]
		}
		if len(m) == 0 {
			return paths, nil
		}
		choices = append(append([]bool{}, m[:len(m)-1]...), true)
	}
	return nil, &Undecided{Msg: "too many paths", Pos: fd.Pos()}
}

func (it *Interp) newLoc(name string, v *sym.Term) *Loc {
	it.nloc++
	l := &Loc{Name: name, Val: v, Consistent: true}
	it.path.Locs = append(it.path.Locs, l)
	return l
}

func (it *Interp) runOnce(fd *ast.FuncDecl) (p *Path, und *Undecided) {
	defer func() {
		if r := recover(); r != nil {
			if u, ok := r.(*Undecided); ok {
				und = u
				return
			}
			panic(r)
		}
	}()
	it.path = &Path{}
	frame := map[types.Object]Value{}
	it.env = []map[types.Object]Value{frame}
	// receiver
	var recv *Loc
	if fd.Recv != nil && len(fd.Recv.List[0].Names) > 0 {
		robj := it.info.Defs[fd.Recv.List[0].Names[0]]
		if it.cfg.RecvStruct != nil {
			if it.cfg.RecvFresh {
				frame[robj] = DeepCopy(it.cfg.RecvStruct, nil)
			} else {
				frame[robj] = it.cfg.RecvStruct
			}
			it.path.RecvObj, _ = frame[robj].(*StructVal)
		} else if r := containerRank(robj.Type()); r > 0 && it.cfg.KernelMode {
			frame[robj] = &Container{Name: "r0", Sym: sym.Sym("r0"), Rank: r}
		} else {
			recv = it.newLoc("r0", sym.Sym("r0"))
			frame[robj] = recv
		}
	}
	it.path.Recv = recv
	k := 0
	pvals := it.cfg.ParamValues
	plist := it.cfg.ParamList
	if it.cfg.ParamFresh && (pvals != nil || plist != nil) {
		memo := map[interface{}]Value{}
		pvals = map[string]Value{}
		for n, v := range it.cfg.ParamValues {
			pvals[n] = DeepCopy(v, memo)
		}
		plist = nil
		for _, v := range it.cfg.ParamList {
			if v == nil {
				plist = append(plist, nil)
			} else {
				plist = append(plist, DeepCopy(v, memo))
			}
		}
	}
	for _, f := range fd.Type.Params.List {
		for _, n := range f.Names {
			obj := it.info.Defs[n]
			name := fmt.Sprintf("p%d", k)
			if it.cfg.ParamNames {
				name = n.Name
			}
			if k < len(it.cfg.ParamSyms) && it.cfg.ParamSyms[k] != "" {
				name = it.cfg.ParamSyms[k]
			}
			v := it.paramValue(obj.Type(), name, n.Pos())
			if pv, ok := pvals[n.Name]; ok {
				v = pv
			}
			if k < len(plist) && plist[k] != nil {
				v = plist[k]
			}
			for _, a := range it.cfg.Alias {
				if a == k {
					if _, ok := v.(*Loc); ok && recv != nil {
						v = recv
					}
				}
			}
			if _, isLoc := v.(*Loc); isLoc {
				for _, g := range it.cfg.Groups {
					in := false
					for _, m := range g {
						if m == k {
							in = true
						}
					}
					if !in {
						continue
					}
					// representative: receiver if present, else the first member already bound
					for _, m := range g {
						if m == -1 && recv != nil {
							v = recv
							break
						}
						if m >= 0 && m < k && m < len(it.path.Params) {
							if l, ok := it.path.Params[m].(*Loc); ok {
								v = l
								break
							}
						}
					}
				}
			}
			frame[obj] = v
			it.path.Params = append(it.path.Params, v)
			k++
		}
	}
	if it.cfg.Body != nil {
		memo := map[interface{}]Value{}
		for o, v := range it.cfg.Env {
			frame[o] = DeepCopy(v, memo)
		}
		it.unrolled++ // break/continue leave the statements
		for _, st := range it.cfg.Body {
			if it.done || it.ctl != "" {
				break
			}
			it.stmt(st)
		}
		it.unrolled--
		it.path.Ctl = it.ctl
		it.path.Env = map[types.Object]Value{}
		for o := range it.cfg.Env {
			it.path.Env[o] = frame[o]
		}
		it.path.Ret = it.ret
		return it.path, nil
	}
	it.block(fd.Body.List)
	if it.cfg.KernelMode {
		it.closeElems("", nil)
	}
	it.path.Ret = it.ret
	return it.path, nil
}

func isScalarType(t types.Type) bool {
	n := namedOf(t)
	if n == nil {
		return false
	}
	switch n.Obj().Name() {
	case "Scalar", "ConstScalar", "MagicScalar",
		"Real32", "Real64", "Float32", "Float64", "Int", "Int8", "Int16", "Int32", "Int64",
		"ConstFloat32", "ConstFloat64", "ConstInt", "ConstInt8", "ConstInt16", "ConstInt32", "ConstInt64":
		return true
	}
	return false
}

func containerRank(t types.Type) int {
	n := namedOf(t)
	if n == nil {
		return 0
	}
	nm := n.Obj().Name()
	if strings.HasSuffix(nm, "Vector") {
		return 1
	}
	if strings.HasSuffix(nm, "Matrix") {
		return 2
	}
	return 0
}

func namedOf(t types.Type) *types.Named {
	for {
		switch x := t.(type) {
		case *types.Pointer:
			t = x.Elem()
			continue
		case *types.Named:
			return x
		}
		return nil
	}
}

func (it *Interp) paramValue(t types.Type, name string, pos token.Pos) Value {
	if isScalarType(t) {
		return it.newLoc(name, sym.Sym(name))
	}
	if r := containerRank(t); r > 0 {
		return &Container{Name: name, Sym: sym.Sym(name), Rank: r}
	}
	switch u := t.Underlying().(type) {
	case *types.Basic:
		if u.Info()&(types.IsFloat|types.IsInteger) != 0 {
			return sym.Sym(name)
		}
		if u.Info()&types.IsBoolean != 0 {
			return &BoolVal{C: &Cond{Op: "param", A: sym.Sym(name)}}
		}
	case *types.Array:
		if isScalarType(u.Elem()) {
			a := &ArrVal{}
			for i := 0; i < int(u.Len()); i++ {
				a.Elems = append(a.Elems, it.newLoc(fmt.Sprintf("%s[%d]", name, i), sym.Sym(fmt.Sprintf("%s_%d", name, i))))
			}
			return a
		}
	}
	if _, ok := t.Underlying().(*types.Signature); ok {
		return &FuncParam{Name: name, Sig: t.Underlying().(*types.Signature)}
	}
	if n := namedOf(t); n != nil && n.Obj().Name() == "ConfigDistribution" {
		return &OpaqueVal{"config"}
	}
	if n := namedOf(t); n != nil && n.Obj().Name() == "ThreadPool" {
		return &OpaqueVal{"pool"}
	}
	if n := namedOf(t); n != nil && n.Obj().Name() == "ScalarType" {
		return &OpaqueVal{"scalartype"}
	}
	return sym.Sym(name) // opaque
}

// FuncParam is a function-typed parameter (lazy coefficient); calling it yields opaque symbols name#k.
type FuncParam struct {
	Name string
	Sig  *types.Signature
}

// ---------------------------------------------------------------------------

func (it *Interp) lookup(o types.Object) (Value, bool) {
	for i := len(it.env) - 1; i >= 0; i-- {
		if v, ok := it.env[i][o]; ok {
			return v, true
		}
	}
	return nil, false
}

func (it *Interp) setVar(o types.Object, v Value, define bool) {
	if !define {
		for i := len(it.env) - 1; i >= 0; i-- {
			if _, ok := it.env[i][o]; ok {
				it.env[i][o] = v
				return
			}
		}
	}
	it.env[len(it.env)-1][o] = v
}

func (it *Interp) block(list []ast.Stmt) {
	it.env = append(it.env, map[types.Object]Value{})
	defer func() {
		if len(it.env) > 0 {
			it.env = it.env[:len(it.env)-1]
		}
	}()
	for _, s := range list {
		if it.done || it.ctl != "" {
			return
		}
		it.stmt(s)
	}
}

// branch decides a boolean value, forking when unknown.
func (it *Interp) branch(b *BoolVal, pos token.Pos) bool {
	if b.Known {
		return b.V
	}
	switch b.Op {
	case "not":
		return !it.branch(b.L, pos)
	case "and":
		return it.branch(b.L, pos) && it.branch(b.R, pos)
	case "or":
		return it.branch(b.L, pos) || it.branch(b.R, pos)
	}
	// same condition already decided on this path?
	s := b.C.String()
	for _, c := range it.path.Conds {
		if c.C.String() == s {
			return c.V
		}
	}
	k := len(it.made)
	v := false
	if k < len(it.choices) {
		v = it.choices[k]
	}
	it.made = append(it.made, v)
	it.path.Conds = append(it.path.Conds, CondV{b.C, v})
	return v
}

func (it *Interp) stmt(s ast.Stmt) {
	switch x := s.(type) {
	case *ast.AssignStmt:
		it.assignStmt(x)
	case *ast.DeclStmt:
		gd, ok := x.Decl.(*ast.GenDecl)
		if !ok || gd.Tok != token.VAR {
			it.undecided(s.Pos(), "declaration")
		}
		for _, sp := range gd.Specs {
			vs := sp.(*ast.ValueSpec)
			for i, n := range vs.Names {
				var v Value = sym.Zero()
				if i < len(vs.Values) {
					v = it.eval(vs.Values[i])
				}
				it.setVar(it.info.Defs[n], v, true)
			}
		}
	case *ast.ExprStmt:
		it.eval(x.X)
	case *ast.IncDecStmt:
		v := it.evalTerm(x.X)
		if x.Tok == token.INC {
			v = sym.Add(v, sym.One())
		} else {
			v = sym.Sub(v, sym.One())
		}
		it.assignTo(x.X, v, false)
	case *ast.IfStmt:
		it.env = append(it.env, map[types.Object]Value{})
		defer func() {
			if len(it.env) > 0 {
				it.env = it.env[:len(it.env)-1]
			}
		}()
		if x.Init != nil {
			it.stmt(x.Init)
		}
		c := it.evalBool(x.Cond)
		if it.branch(c, x.Cond.Pos()) {
			it.block(x.Body.List)
		} else if x.Else != nil {
			switch e := x.Else.(type) {
			case *ast.BlockStmt:
				it.block(e.List)
			case *ast.IfStmt:
				it.stmt(e)
			}
		}
	case *ast.SwitchStmt:
		it.env = append(it.env, map[types.Object]Value{})
		defer func() {
			if len(it.env) > 0 {
				it.env = it.env[:len(it.env)-1]
			}
		}()
		if x.Init != nil {
			it.stmt(x.Init)
		}
		var tag Value
		if x.Tag != nil {
			tag = it.eval(x.Tag)
		}
		var def *ast.CaseClause
		for _, cs := range x.Body.List {
			cc := cs.(*ast.CaseClause)
			if cc.List == nil {
				def = cc
				continue
			}
			for _, e := range cc.List {
				var hit bool
				if tag == nil {
					hit = it.branch(it.evalBool(e), e.Pos())
				} else {
					hit = it.branch(it.compare(token.EQL, tag, it.eval(e), e.Pos()), e.Pos())
				}
				if hit {
					it.block(cc.Body)
					return
				}
			}
		}
		if def != nil {
			it.block(def.Body)
		}
	case *ast.ReturnStmt:
		var rs Tuple
		for _, r := range x.Results {
			rs = append(rs, it.eval(r))
		}
		if len(rs) == 1 {
			it.ret = rs[0]
		} else {
			it.ret = rs
		}
		it.done = true
	case *ast.BlockStmt:
		it.block(x.List)
	case *ast.ForStmt:
		it.forStmt(x)
	case *ast.RangeStmt:
		it.rangeStmt(x)
	case *ast.BranchStmt:
		if it.unrolled > 0 && x.Label == nil && (x.Tok == token.CONTINUE || x.Tok == token.BREAK) {
			it.ctl = x.Tok.String()
			return
		}
		it.undecided(s.Pos(), "statement %T", s)
	case *ast.LabeledStmt:
		it.stmt(x.Stmt)
	case *ast.TypeSwitchStmt:
		it.typeSwitch(x)
	case *ast.EmptyStmt:
	default:
		it.undecided(s.Pos(), "statement %T", s)
	}
}

func (it *Interp) assignStmt(x *ast.AssignStmt) {
	define := x.Tok == token.DEFINE
	if x.Tok != token.ASSIGN && x.Tok != token.DEFINE {
		// op-assign on float locals: s += e
		if len(x.Lhs) != 1 {
			it.undecided(x.Pos(), "op-assignment arity")
		}
		l := it.evalTerm(x.Lhs[0])
		r := it.evalTerm(x.Rhs[0])
		var v *sym.Term
		switch x.Tok {
		case token.ADD_ASSIGN:
			v = sym.Add(l, r)
		case token.SUB_ASSIGN:
			v = sym.Sub(l, r)
		case token.MUL_ASSIGN:
			v = sym.Mul(l, r)
		case token.QUO_ASSIGN:
			v = sym.Div(l, r)
		case token.OR_ASSIGN:
			v = sym.Fn("bitor", l, r)
		case token.AND_ASSIGN:
			v = sym.Fn("bitand", l, r)
		default:
			it.undecided(x.Pos(), "op-assignment %s", x.Tok)
		}
		it.assignTo(x.Lhs[0], v, false)
		return
	}
	var vals []Value
	if len(x.Rhs) == 1 && len(x.Lhs) > 1 {
		v := it.eval(x.Rhs[0])
		t, ok := v.(Tuple)
		if !ok || len(t) != len(x.Lhs) {
			it.undecided(x.Pos(), "tuple assignment from %T", v)
		}
		vals = t
	} else {
		for _, r := range x.Rhs {
			vals = append(vals, it.eval(r))
		}
	}
	for i, l := range x.Lhs {
		it.assignTo(l, vals[i], define)
	}
}

func (it *Interp) assignTo(lhs ast.Expr, v Value, define bool) {
	switch x := ast.Unparen(lhs).(type) {
	case *ast.Ident:
		if x.Name == "_" {
			return
		}
		o := it.info.Defs[x]
		isDef := define && o != nil
		if o == nil {
			o = it.info.Uses[x]
		}
		it.setVar(o, v, isDef)
	case *ast.IndexExpr:
		base := it.eval(x.X)
		switch b := base.(type) {
		case *SliceVal:
			b.Cells[it.evalTerm(x.Index).String()] = it.toTerm(v, lhs.Pos())
			return
		case *ListVal:
			b.Elems[it.listIndex(b, x.Index)] = v
			return
		case *LocalVec:
			// v[i] = w stores the element (for pointer-element vectors the slot takes the other location)
			if l, ok := v.(*Loc); ok {
				b.Cells[it.evalTerm(x.Index).String()] = l
				return
			}
			if t, ok := v.(*sym.Term); ok {
				b.Cells[it.evalTerm(x.Index).String()] = it.newLoc("cell", t)
				return
			}
		case *Container:
			it.curPos = x.Pos()
			l := it.elemLoc(b, []*sym.Term{it.evalTerm(x.Index)})
			switch t := v.(type) {
			case *sym.Term:
				l.Val = t
			case *Loc:
				l.Val = t.Val
			default:
				it.undecided(lhs.Pos(), "element assignment from %T", v)
			}
			l.Written = true
			return
		}
		it.undecided(lhs.Pos(), "assignment target %s", types.ExprString(lhs))
	case *ast.SelectorExpr:
		if sv, ok := it.eval(x.X).(*StructVal); ok {
			it.setField(sv, x.Sel.Name, v, lhs.Pos())
			return
		}
		it.undecided(lhs.Pos(), "assignment target %s", types.ExprString(lhs))
	case *ast.StarExpr:
		// *obj = *tmp : the object takes over the fields of the other
		dst, ok1 := it.eval(x.X).(*StructVal)
		src, ok2 := v.(*StructVal)
		if ok1 && ok2 {
			cp := copyStruct(src)
			dst.Fields = cp.Fields
			return
		}
		it.undecided(lhs.Pos(), "assignment target %s", types.ExprString(lhs))
	default:
		it.undecided(lhs.Pos(), "assignment target %s", types.ExprString(lhs))
	}
}

// ---------------------------------------------------------------------------
// expressions

func (it *Interp) evalTerm(e ast.Expr) *sym.Term {
	v := it.eval(e)
	switch t := v.(type) {
	case *sym.Term:
		return t
	case *Loc:
		return t.Val
	}
	it.undecided(e.Pos(), "expected a number, got %T in %s", v, types.ExprString(e))
	return nil
}

func (it *Interp) evalBool(e ast.Expr) *BoolVal {
	v := it.eval(e)
	if b, ok := v.(*BoolVal); ok {
		return b
	}
	it.undecided(e.Pos(), "expected a boolean, got %T in %s", v, types.ExprString(e))
	return nil
}

func ratOfConst(v constant.Value) (*big.Rat, bool) {
	switch v.Kind() {
	case constant.Int, constant.Float:
		r, ok := new(big.Rat).SetString(v.ExactString())
		return r, ok
	}
	return nil, false
}

func (it *Interp) eval(e ast.Expr) Value {
	e = ast.Unparen(e)
	// named constants that denote transcendental numbers
	if sel, ok := e.(*ast.SelectorExpr); ok {
		if c, ok := it.info.Uses[sel.Sel].(*types.Const); ok && c.Pkg() != nil {
			switch c.Pkg().Path() + "." + c.Name() {
			case "math.Pi":
				return sym.Sym("pi")
			case "github.com/pbenner/autodiff/special.M_SQRTPI":
				return sym.Sym("sqrtpi")
			case "math.E":
				return sym.Fn("exp", sym.One())
			}
		}
	}
	if id, ok := e.(*ast.Ident); ok {
		if c, ok := it.info.Uses[id].(*types.Const); ok && c.Pkg() != nil && c.Name() == "M_SQRTPI" {
			return sym.Sym("sqrtpi")
		}
	}
	if tv, ok := it.info.Types[e]; ok && tv.Value != nil {
		if r, ok := ratOfConst(tv.Value); ok {
			// only fold expressions without identifiers denoting pi etc.
			if !mentionsTranscendental(it.info, e) {
				if isScalarType(tv.Type) {
					l := it.newLoc("const", sym.Const(r))
					l.Const = true
					return l
				}
				return sym.Const(r)
			}
		}
		if tv.Value.Kind() == constant.Bool {
			return &BoolVal{Known: true, V: constant.BoolVal(tv.Value)}
		}
	}
	switch x := e.(type) {
	case *ast.Ident:
		if x.Name == "nil" {
			return NilVal{}
		}
		if x.Name == "true" || x.Name == "false" {
			return &BoolVal{Known: true, V: x.Name == "true"}
		}
		o := it.info.Uses[x]
		if o == nil {
			o = it.info.Defs[x]
		}
		if v, ok := it.lookup(o); ok {
			return v
		}
		if o != nil {
			if n := namedOf(o.Type()); n != nil && n.Obj().Name() == "ScalarType" {
				return &OpaqueVal{"scalartype"} // Float64Type, Real64Type, ... : carried, never inspected
			}
			// a package-level numeric variable (MaxLogFloat64, EpsilonFloat64, ...): a fixed unknown number
			if v, ok := o.(*types.Var); ok && it.cfg.GlobalVals != nil && it.cfg.GlobalVals[v.Name()] != nil && v.Pkg() != nil && v.Parent() == v.Pkg().Scope() {
				return it.cfg.GlobalVals[v.Name()]
			}
			if v, ok := o.(*types.Var); ok && it.cfg.GlobalSyms && v.Parent() != nil && v.Pkg() != nil && v.Parent() == v.Pkg().Scope() {
				if b, ok := v.Type().Underlying().(*types.Basic); ok && b.Info()&(types.IsFloat|types.IsInteger) != 0 {
					return sym.Sym(v.Name())
				}
			}
		}
		it.undecided(e.Pos(), "unbound identifier %s", x.Name)
	case *ast.BasicLit:
		it.undecided(e.Pos(), "literal %s", x.Value)
	case *ast.CompositeLit:
		return it.compositeLit(x)
	case *ast.FuncLit:
		envCopy := append([]map[types.Object]Value{}, it.env...)
		return &Closure{Lit: x, Env: envCopy}
	case *ast.UnaryExpr:
		switch x.Op {
		case token.SUB:
			return sym.Neg(it.evalTerm(x.X))
		case token.ADD:
			return it.evalTerm(x.X)
		case token.NOT:
			return &BoolVal{Op: "not", L: it.evalBool(x.X)}
		case token.AND:
			return it.eval(x.X)
		}
	case *ast.StarExpr:
		return it.eval(x.X)
	case *ast.BinaryExpr:
		switch x.Op {
		case token.LAND:
			return &BoolVal{Op: "and", L: it.evalBool(x.X), R: it.evalBool(x.Y)}
		case token.LOR:
			return &BoolVal{Op: "or", L: it.evalBool(x.X), R: it.evalBool(x.Y)}
		case token.EQL, token.NEQ, token.LSS, token.LEQ, token.GTR, token.GEQ:
			return it.compare(x.Op, it.eval(x.X), it.eval(x.Y), x.Pos())
		}
		l, r := it.evalTerm(x.X), it.evalTerm(x.Y)
		switch x.Op {
		case token.ADD:
			return sym.Add(l, r)
		case token.SUB:
			return sym.Sub(l, r)
		case token.MUL:
			return sym.Mul(l, r)
		case token.QUO:
			if tv, ok := it.info.Types[e]; ok {
				if b, ok := tv.Type.Underlying().(*types.Basic); ok && b.Info()&types.IsInteger != 0 {
					if a, ok := constIndex(l); ok {
						if d, ok := constIndex(r); ok && d != 0 {
							return sym.Int(int64(a / d))
						}
					}
					return sym.Fn("idiv", l, r)
				}
			}
			return sym.Div(l, r)
		case token.REM:
			if a, ok := constIndex(l); ok {
				if b, ok := constIndex(r); ok && b != 0 {
					return sym.Int(int64(a % b))
				}
			}
			return sym.Fn("imod", l, r)
		case token.AND:
			if a, ok := constIndex(l); ok {
				if b, ok := constIndex(r); ok {
					return sym.Int(int64(a & b))
				}
			}
			return sym.Fn("bitand", l, r)
		case token.OR:
			if a, ok := constIndex(l); ok {
				if b, ok := constIndex(r); ok {
					return sym.Int(int64(a | b))
				}
			}
			return sym.Fn("bitor", l, r)
		}
	case *ast.IndexExpr:
		base := it.eval(x.X)
		if cont, ok := base.(*Container); ok {
			it.curPos = x.Pos()
			return it.elemLoc(cont, []*sym.Term{it.evalTerm(x.Index)})
		}
		if sl, ok := base.(*SliceVal); ok {
			k := it.evalTerm(x.Index).String()
			if v, ok := sl.Cells[k]; ok {
				return v
			}
			if sl.Tag != "" {
				return sym.Fn("cell", sym.Sym(sl.Tag), it.evalTerm(x.Index))
			}
			if sl.Zero && it.cfg.UnrollConst {
				return sym.Zero()
			}
			return sym.Fn("cell", sym.Sym(k))
		}
		if l, ok := base.(*ListVal); ok {
			return l.Elems[it.listIndex(l, x.Index)]
		}
		if lv, ok := base.(*LocalVec); ok {
			k := it.evalTerm(x.Index).String()
			if c, ok := lv.Cells[k]; ok {
				return c
			}
			c := it.newLoc("cell", sym.Zero())
			lv.Cells[k] = c
			return c
		}
		if a, ok := base.(*ArrVal); ok {
			idx := it.evalTerm(x.Index)
			if c, ok := idx.IsConst(); ok && c.IsInt() {
				k := int(c.Num().Int64())
				if k >= 0 && k < len(a.Elems) {
					return a.Elems[k]
				}
			}
			it.undecided(e.Pos(), "array index %s", idx)
		}
	case *ast.CallExpr:
		return it.call(x)
	case *ast.SelectorExpr:
		base := it.eval(x.X)
		if sv, ok := base.(*StructVal); ok {
			return it.field(sv, x.Sel.Name, x.Pos())
		}
		if l, ok := base.(*Loc); ok {
			switch x.Sel.Name {
			case "Order":
				return sym.Fn("order", sym.Sym(l.Name))
			case "N":
				return sym.Fn("nvars", sym.Sym(l.Name))
			case "Value":
				return l.Val
			}
		}
		it.undecided(e.Pos(), "selector %s", types.ExprString(e))
	case *ast.TypeAssertExpr:
		v := it.eval(x.X)
		if tv, ok := it.info.Types[e]; ok {
			if tup, isTuple := tv.Type.(*types.Tuple); isTuple && tup.Len() == 2 {
				// comma-ok form: decided from the dynamic type of the value
				if x.Type != nil {
					if want, ok := it.info.Types[x.Type]; ok {
						return Tuple{v, &BoolVal{Known: true, V: it.hasDynType(v, want.Type)}}
					}
				}
			}
		}
		return v
	}
	it.undecided(e.Pos(), "expression %s", types.ExprString(e))
	return nil
}

func mentionsTranscendental(info *types.Info, e ast.Expr) bool {
	found := false
	ast.Inspect(e, func(n ast.Node) bool {
		if id, ok := n.(*ast.Ident); ok {
			if c, ok := info.Uses[id].(*types.Const); ok && c.Pkg() != nil {
				if c.Name() == "Pi" || c.Name() == "M_SQRTPI" || c.Name() == "E" {
					found = true
				}
			}
		}
		return true
	})
	return found
}

func (it *Interp) compare(op token.Token, l, r Value, pos token.Pos) *BoolVal {
	// nil comparisons
	_, ln := l.(NilVal)
	_, rn := r.(NilVal)
	if lb, ok := l.(*BoolVal); ok {
		if rb, ok := r.(*BoolVal); ok && lb.Known && rb.Known {
			eq := lb.V == rb.V
			if op == token.NEQ {
				eq = !eq
			}
			return &BoolVal{Known: true, V: eq}
		}
	}
	if ln || rn {
		both := ln && rn
		if op == token.EQL {
			return &BoolVal{Known: true, V: both}
		}
		return &BoolVal{Known: true, V: !both}
	}
	// two scalar objects compared with == / != : identity of the objects, as for the pointers behind the interfaces
	if ll, ok := l.(*Loc); ok && (op == token.EQL || op == token.NEQ) {
		if rl, ok := r.(*Loc); ok {
			same := ll == rl
			if op == token.NEQ {
				same = !same
			}
			return &BoolVal{Known: true, V: same}
		}
	}
	var a, b *sym.Term
	switch t := l.(type) {
	case *sym.Term:
		a = t
	case *Loc:
		a = t.Val
	}
	switch t := r.(type) {
	case *sym.Term:
		b = t
	case *Loc:
		b = t.Val
	}
	if a == nil || b == nil {
		it.undecided(pos, "comparison of %T and %T", l, r)
	}
	if ca, ok := a.IsConst(); ok {
		if cb, ok := b.IsConst(); ok {
			c := ca.Cmp(cb)
			var v bool
			switch op {
			case token.EQL:
				v = c == 0
			case token.NEQ:
				v = c != 0
			case token.LSS:
				v = c < 0
			case token.LEQ:
				v = c <= 0
			case token.GTR:
				v = c > 0
			case token.GEQ:
				v = c >= 0
			}
			return &BoolVal{Known: true, V: v}
		}
	}
	if it.cfg.FiniteSyms {
		aInf, bInf := a.String() == "-Inf", b.String() == "-Inf"
		if aInf != bInf && !strings.Contains(a.String()+b.String(), "+Inf") && !(aInf && strings.Contains(b.String(), "Inf")) && !(bInf && strings.Contains(a.String(), "Inf")) {
			// -Inf < x for every finite x
			var v bool
			switch op {
			case token.LSS, token.LEQ, token.NEQ:
				v = aInf
			case token.GTR, token.GEQ:
				v = bInf
			case token.EQL:
				v = false
			}
			if op == token.NEQ {
				v = true
			}
			return &BoolVal{Known: true, V: v}
		}
	}
	if sym.Equal(a, b) {
		switch op {
		case token.EQL, token.LEQ, token.GEQ:
			// x == x is true except for NaN; keep unknown for floats to be safe? comparisons on identical terms are decided
			return &BoolVal{Known: true, V: true}
		case token.NEQ, token.LSS, token.GTR:
			return &BoolVal{Known: true, V: false}
		}
	}
	// canonical forms: ge(a,b) = !lt(a,b), gt(a,b) = lt(b,a), le(a,b) = !lt(b,a), ne = !eq
	switch op {
	case token.LSS:
		return &BoolVal{C: &Cond{Op: "lt", A: a, B: b}}
	case token.GEQ:
		return &BoolVal{Op: "not", L: &BoolVal{C: &Cond{Op: "lt", A: a, B: b}}}
	case token.GTR:
		return &BoolVal{C: &Cond{Op: "lt", A: b, B: a}}
	case token.LEQ:
		return &BoolVal{Op: "not", L: &BoolVal{C: &Cond{Op: "lt", A: b, B: a}}}
	case token.EQL:
		if b.String() < a.String() {
			a, b = b, a
		}
		return &BoolVal{C: &Cond{Op: "eq", A: a, B: b}}
	case token.NEQ:
		if b.String() < a.String() {
			a, b = b, a
		}
		return &BoolVal{Op: "not", L: &BoolVal{C: &Cond{Op: "eq", A: a, B: b}}}
	}
	it.undecided(pos, "comparison operator")
	return nil
}

// ---------------------------------------------------------------------------
// calls

var mathFn = map[string]string{
	"math.Sin": "sin", "math.Cos": "cos", "math.Tan": "tan", "math.Sinh": "sinh", "math.Cosh": "cosh", "math.Tanh": "tanh",
	"math.Exp": "exp", "math.Log": "log", "math.Log1p": "log1p", "math.Erf": "erf", "math.Erfc": "erfc", "math.Gamma": "gamma",
	"math.Sqrt": "sqrt", "math.Pow": "pow", "math.Abs": "fabs", "math.Max": "fmax", "math.Min": "fmin", "math.Floor": "floor", "math.Ceil": "ceil", "math.Round": "round", "math.Trunc": "trunc",
	"special.LogErfc": "logerfc", "special.Digamma": "digamma", "special.Trigamma": "trigamma", "special.Mlgamma": "mlgamma",
	"special.GammaP": "gammap", "special.GammaPfirstDerivative": "gammapd1", "special.GammaPsecondDerivative": "gammapd2",
	"special.BesselI": "besseli", "special.LogBesselI": "logbesseli",
	"special.Gamma": "gamma", "special.Lgamma": "lgamma",
}

func init() {
	// autodiff.LogAdd(a, b) = log(exp a + exp b) on float64
	mathFn["autodiff.LogAdd"] = "logaddf"
	mathFn["logarithmetic.LogAdd"] = "logaddf"
	mathFn["special.LogAdd"] = "logaddf"
	mathFn["special.LogSub"] = "logsubf"
	mathFn["logarithmetic.LogSub"] = "logsubf"
	mathFn["autodiff.LogSub"] = "logsubf"
}

func calleeOf(info *types.Info, call *ast.CallExpr) *types.Func {
	var id *ast.Ident
	switch f := ast.Unparen(call.Fun).(type) {
	case *ast.Ident:
		id = f
	case *ast.SelectorExpr:
		id = f.Sel
	default:
		return nil
	}
	if fn, ok := info.Uses[id].(*types.Func); ok {
		return fn
	}
	return nil
}

func (it *Interp) call(call *ast.CallExpr) Value {
	info := it.info
	// conversions
	if tv, ok := info.Types[call.Fun]; ok && tv.IsType() {
		if len(call.Args) != 1 {
			it.undecided(call.Pos(), "conversion arity")
		}
		if isScalarType(tv.Type) {
			// ConstFloat64(x), Float64 conversions: a constant scalar holding x
			v := it.evalTerm(call.Args[0])
			l := it.newLoc("const", v)
			l.Const = true
			return l
		}
		v := it.eval(call.Args[0])
		if b, ok := tv.Type.Underlying().(*types.Basic); ok && b.Info()&types.IsInteger != 0 {
			if atv, ok := info.Types[call.Args[0]]; ok {
				if ab, ok := atv.Type.Underlying().(*types.Basic); ok && ab.Info()&types.IsFloat != 0 {
					t := it.toTerm(v, call.Pos())
					if it.cfg.IntSyms[t.String()] {
						return t
					}
					if cv, isC := t.IsConst(); isC && cv.IsInt() {
						return t // int(3.0) = 3
					}
					if cv, isC := t.IsConst(); isC {
						// int(6.38) = 6, int(-6.38) = -6: truncation towards zero
						q := new(big.Int).Quo(cv.Num(), cv.Denom())
						return sym.Const(new(big.Rat).SetInt(q))
					}
					return sym.Fn("trunc", t)
				}
			}
		}
		return v
	}
	// builtins
	if id, ok := ast.Unparen(call.Fun).(*ast.Ident); ok {
		if bi, ok := info.Uses[id].(*types.Builtin); ok {
			b := bi
			switch b.Name() {
			case "panic":
				it.path.Panic = true
				it.path.Events = append(it.path.Events, Event{Kind: "panic", Pos: call.Pos()})
				it.done = true
				return NilVal{}
			case "min", "max":
				// builtin min/max over numbers: decided for constants, a symbolic fmin/fmax otherwise
				if len(call.Args) == 2 {
					a, b := it.evalTerm(call.Args[0]), it.evalTerm(call.Args[1])
					if ca, ok := a.IsConst(); ok {
						if cb, ok := b.IsConst(); ok {
							if (ca.Cmp(cb) < 0) == (bi.Name() == "min") {
								return a
							}
							return b
						}
					}
					return sym.Fn("f"+bi.Name(), a, b)
				}
			case "append":
				// append on lists of objects (option lists); numeric slices are not grown by the analysed code
				if len(call.Args) >= 1 {
					base := it.eval(call.Args[0])
					var l *ListVal
					switch bv := base.(type) {
					case *ListVal:
						l = &ListVal{Elems: append([]Value{}, bv.Elems...)}
					case NilVal:
						l = &ListVal{}
					}
					if l != nil {
						for i, a := range call.Args[1:] {
							v := it.eval(a)
							if call.Ellipsis != token.NoPos && i == len(call.Args)-2 {
								if sp, ok := v.(*ListVal); ok {
									l.Elems = append(l.Elems, sp.Elems...)
									continue
								}
							}
							l.Elems = append(l.Elems, v)
						}
						return l
					}
				}
			case "len":
				v := it.eval(call.Args[0])
				if c, ok := v.(*Container); ok {
					return sym.Fn("dim", c.Sym)
				}
				if sl, ok := v.(*SliceVal); ok {
					return sl.Len
				}
				if l, ok := v.(*ListVal); ok {
					return sym.Int(int64(len(l.Elems)))
				}
				if lv, ok := v.(*LocalVec); ok {
					return lv.Len
				}
				if _, ok := v.(NilVal); ok {
					return sym.Zero()
				}
			case "make":
				if len(call.Args) == 2 {
					if tv, ok := info.Types[call.Args[0]]; ok {
						if sl, ok := tv.Type.Underlying().(*types.Slice); ok {
							if b, isBasic := sl.Elem().Underlying().(*types.Basic); !isBasic || b.Info()&types.IsNumeric == 0 {
								if n, ok := constIndex(it.evalTerm(call.Args[1])); ok && n <= 64 {
									l := &ListVal{}
									for i := 0; i < n; i++ {
										if isBasic && b.Info()&types.IsBoolean != 0 {
											l.Elems = append(l.Elems, &BoolVal{Known: true, V: false})
										} else {
											l.Elems = append(l.Elems, NilVal{})
										}
									}
									return l
								}
							}
						}
					}
					return &SliceVal{Len: it.evalTerm(call.Args[1]), Cells: map[string]*sym.Term{}, Zero: true}
				}
			}
			it.undecided(call.Pos(), "builtin %s", b.Name())
		}
		// closure call
		if o := info.Uses[id]; o != nil {
			if v, ok := it.lookup(o); ok {
				if cl, ok := v.(*Closure); ok {
					return it.callClosure(cl, call)
				}
				if fp, ok := v.(*FuncParam); ok {
					it.path.Events = append(it.path.Events, Event{Kind: "lazycall", Op: fp.Name, Pos: call.Pos()})
					n := fp.Sig.Results().Len()
					if n == 1 {
						return sym.Sym(fp.Name + "#0")
					}
					var t Tuple
					for k := 0; k < n; k++ {
						t = append(t, sym.Sym(fmt.Sprintf("%s#%d", fp.Name, k)))
					}
					return t
				}
			}
		}
	}
	fn := calleeOf(info, call)
	if fn == nil {
		it.undecided(call.Pos(), "unresolved call %s", types.ExprString(call.Fun))
	}
	sig := fn.Type().(*types.Signature)
	if sig.Recv() == nil {
		return it.callFunc(fn, call)
	}
	return it.callMethod(fn, call)
}

func (it *Interp) toTerm(v Value, pos token.Pos) *sym.Term {
	switch t := v.(type) {
	case *sym.Term:
		return t
	case *Loc:
		return t.Val
	}
	it.undecided(pos, "expected number, got %T", v)
	return nil
}

func (it *Interp) callClosure(cl *Closure, call *ast.CallExpr) Value {
	var args []Value
	for _, a := range call.Args {
		args = append(args, it.eval(a))
	}
	r := it.Apply(cl, args, call.Pos())
	if _, isNil := r.(NilVal); isNil && (cl.Lit.Type.Results == nil || len(cl.Lit.Type.Results.List) == 0) {
		return nil
	}
	return r
}

func (it *Interp) callFunc(fn *types.Func, call *ast.CallExpr) Value {
	pkgName := ""
	if fn.Pkg() != nil {
		pkgName = fn.Pkg().Name()
	}
	full := pkgName + "." + fn.Name()
	if it.cfg.CallHook != nil {
		if h := it.cfg.CallHook(fn); h != nil {
			var args []Value
			for _, a := range call.Args {
				args = append(args, it.eval(a))
			}
			return h(args)
		}
	}
	if name, ok := mathFn[full]; ok {
		var args []*sym.Term
		for _, a := range call.Args {
			args = append(args, it.evalTerm(a))
		}
		switch name {
		case "logaddf":
			return sym.Fn("log", sym.Add(sym.Fn("exp", args[0]), sym.Fn("exp", args[1])))
		case "logsubf":
			return sym.Fn("log", sym.Sub(sym.Fn("exp", args[0]), sym.Fn("exp", args[1])))
		}
		return sym.Fn(name, args...)
	}
	switch full {
	case "math.Lgamma":
		return Tuple{sym.Fn("lgamma", it.evalTerm(call.Args[0])), sym.Fn("lgammasign", it.evalTerm(call.Args[0]))}
	case "math.NaN":
		return sym.Sym("NaN")
	case "math.Inf":
		s := it.evalTerm(call.Args[0])
		if c, ok := s.IsConst(); ok && c.Sign() < 0 {
			return sym.Sym("-Inf")
		}
		return sym.Sym("+Inf")
	case "math.IsInf":
		a := it.evalTerm(call.Args[0])
		s := it.evalTerm(call.Args[1])
		sg := 0
		if c, ok := s.IsConst(); ok {
			sg = c.Sign()
		} else {
			it.undecided(call.Pos(), "IsInf sign argument")
		}
		if it.cfg.FiniteSyms {
			switch {
			case !strings.Contains(a.String(), "Inf"):
				return &BoolVal{Known: true, V: false}
			case a.String() == "-Inf":
				return &BoolVal{Known: true, V: sg <= 0}
			case a.String() == "+Inf":
				return &BoolVal{Known: true, V: sg >= 0}
			}
		}
		return &BoolVal{C: &Cond{Op: "isinf", A: a, Arg: sg}}
	case "math.IsNaN":
		if a := it.evalTerm(call.Args[0]); it.cfg.FiniteSyms && !strings.Contains(a.String(), "NaN") && !strings.Contains(a.String(), "Inf") {
			return &BoolVal{Known: true, V: false}
		} else {
			return &BoolVal{C: &Cond{Op: "isnan", A: a}}
		}
	}
	// scalar constructors
	if fn.Pkg() != nil && fn.Pkg().Path() == "github.com/pbenner/autodiff" {
		nm := fn.Name()
		switch {
		case strings.HasPrefix(nm, "Null") && isScalarResult(fn):
			return it.newLoc("tmp", sym.Zero())
		case nm == "NewScalar" || nm == "NewConstScalar" || nm == "NewMagicScalar":
			if len(call.Args) == 2 {
				return it.newLoc("tmp", it.evalTerm(call.Args[1]))
			}
		case nm == "NullScalar" || nm == "NullConstScalar" || nm == "NullMagicScalar":
			return it.newLoc("tmp", sym.Zero())
		case strings.HasPrefix(nm, "New") && isScalarResult(fn) && len(call.Args) == 1:
			return it.newLoc("tmp", it.evalTerm(call.Args[0]))
		}
	}
	if fn.Pkg() != nil && fn.Pkg().Path() == "github.com/pbenner/autodiff" && (fn.Name() == "NullDenseVector" || fn.Name() == "NullVector") && len(call.Args) == 2 {
		return &LocalVec{Len: it.evalTerm(call.Args[1]), Cells: map[string]*Loc{}}
	}
	if fn.Pkg() != nil && fn.Pkg().Path() == "github.com/pbenner/autodiff" && strings.HasPrefix(fn.Name(), "NewDense") && strings.HasSuffix(fn.Name(), "Vector") && len(call.Args) == 1 {
		// NewDenseFloat64Vector(values): a vector over the given numbers
		if sl, ok := it.eval(call.Args[0]).(*SliceVal); ok {
			if n, ok := constIndex(sl.Len); ok && n <= 64 {
				v := &LocalVec{Len: sl.Len, Cells: map[string]*Loc{}}
				for i := 0; i < n; i++ {
					k := sym.Int(int64(i)).String()
					t, has := sl.Cells[k]
					if !has {
						if !sl.Zero {
							it.undecided(call.Pos(), "vector from a slice with an unknown cell")
						}
						t = sym.Zero()
					}
					v.Cells[k] = it.newLoc("cell", t)
				}
				return v
			}
		}
	}
	if fn.Pkg() != nil && fn.Pkg().Path() == "github.com/pbenner/autodiff" && (fn.Name() == "NullDenseMatrix" || fn.Name() == "NullMatrix") && len(call.Args) == 3 {
		r, ok1 := constIndex(it.evalTerm(call.Args[1]))
		c, ok2 := constIndex(it.evalTerm(call.Args[2]))
		if ok1 && ok2 && r*c <= 256 {
			return NewLocalMatOn(it, r, c)
		}
	}
	if fn.Name() == "NewConfigDistribution" && len(call.Args) >= 2 {
		// the exported configuration: name and parameter list (nested distributions are not modelled)
		return &StructVal{T: fn.Type().(*types.Signature).Results().At(0).Type(), Fields: map[string]Value{"Parameters": it.eval(call.Args[1])}}
	}
	switch full {
	case "fmt.Errorf", "errors.New":
		return &ErrVal{Msg: types.ExprString(call.Args[0])}
	case "fmt.Sprintf", "fmt.Println", "fmt.Printf", "fmt.Fprintf":
		return &OpaqueVal{"text"}
	}
	if v, ok := it.libraryFunc(fn, call); ok {
		return v
	}
	it.undecided(call.Pos(), "call of %s", fn.FullName())
	return nil
}

func isScalarResult(fn *types.Func) bool {
	sig := fn.Type().(*types.Signature)
	return sig.Results().Len() == 1 && isScalarType(sig.Results().At(0).Type())
}

var combinators = map[string]int{
	"monadic": 1, "monadicLazy": 1, "realMonadic": 1, "realMonadicLazy": 1,
	"dyadic": 2, "dyadicLazy": 2, "realDyadic": 2, "realDyadicLazy": 2,
}

func (it *Interp) callMethod(fn *types.Func, call *ast.CallExpr) Value {
	sel := ast.Unparen(call.Fun).(*ast.SelectorExpr)
	recvV := it.eval(sel.X)
	return it.methodOn(recvV, fn, call)
}

// methodOn dispatches a method call on an already evaluated receiver value.
func (it *Interp) methodOn(recvV Value, fn *types.Func, call *ast.CallExpr) Value {
	name := fn.Name()
	pos := call.Pos()
	switch rv := recvV.(type) {
	case *Container:
		return it.containerMethod(rv, name, call)
	case *IterVal:
		switch name {
		case "GetConst", "Get", "GetMagic", "GET":
			return it.elemLoc(rv.C, []*sym.Term{rv.Idx})
		case "Index":
			return rv.Idx
		}
		it.undecided(pos, "iterator method %s", name)
	case *Loc:
		return it.scalarMethod(rv, name, fn, call)
	case *StructVal:
		return it.structMethod(rv, fn, call)
	case *OpaqueVal:
		if it.cfg.Opaque != nil {
			var args []Value
			for _, a := range call.Args {
				args = append(args, it.eval(a))
			}
			if v, ok := it.cfg.Opaque(it, rv, name, args, call); ok {
				return v
			}
		}
		return it.opaqueMethod(rv, fn, call)
	case *LocalVec:
		return it.localVecMethod(rv, name, call)
	case *LocalMat:
		return it.localMatMethod(rv, name, call)
	}
	it.undecided(pos, "method %s on %T", name, recvV)
	return nil
}

type elemInfo struct {
	cont string
	idx  []*sym.Term
}

func (it *Interp) elemLoc(c *Container, idx []*sym.Term) *Loc {
	args := append([]*sym.Term{c.Sym}, idx...)
	init := sym.Fn("elem", args...)
	if it.cfg.KernelMode {
		it.path.Accesses = append(it.path.Accesses, Access{Cont: c.Sym, Idx: idx, Loops: append([]LoopCtx{}, it.loops...), Pos: it.curPos})
	}
	if !it.cfg.KernelMode {
		l := it.newLoc("elem", init)
		l.Const = true
		return l
	}
	key := init.String()
	if it.elemCache == nil {
		it.elemCache = map[string]*Loc{}
		it.elemMeta = map[*Loc]*elemInfo{}
	}
	if l, ok := it.elemCache[key]; ok {
		return l
	}
	l := it.newLoc("elem", init)
	l.Const = c.Name != "r0"
	it.elemCache[key] = l
	it.elemMeta[l] = &elemInfo{cont: c.Sym.String(), idx: idx}
	return l
}

// closeElems records kernel facts for cached elements whose index mentions the bound variable v (or all, if v == "").
func (it *Interp) closeElems(v string, loops []LoopCtx) {
	if it.elemCache == nil {
		return
	}
	var keys []string
	for k := range it.elemCache {
		keys = append(keys, k)
	}
	sortStrings(keys)
	for _, k := range keys {
		l := it.elemCache[k]
		m := it.elemMeta[l]
		dep := v == ""
		if v != "" {
			for _, ix := range m.idx {
				if ix.DependsOn(sym.SymAtom(v)) {
					dep = true
				}
			}
		}
		if !dep {
			continue
		}
		if l.Written {
			it.path.Facts = append(it.path.Facts, KernelFact{Cont: m.cont, Idx: m.idx, Val: l.Val, Loops: append([]LoopCtx{}, loops...)})
		}
		delete(it.elemCache, k)
	}
}

func sortStrings(s []string) {
	for i := 1; i < len(s); i++ {
		for j := i; j > 0 && s[j] < s[j-1]; j-- {
			s[j], s[j-1] = s[j-1], s[j]
		}
	}
}

func (it *Interp) containerMethod(c *Container, name string, call *ast.CallExpr) Value {
	it.curPos = call.Pos()
	switch name {
	case "Dim":
		return sym.Fn("dim", c.dimSym())
	case "Dims":
		return Tuple{sym.Fn("rows", c.dimSym()), sym.Fn("cols", c.dimSym())}
	case "ConstAt", "At", "AT", "MagicAt", "ValueAt", "Float64At", "Float32At":
		var idx []*sym.Term
		for _, a := range call.Args {
			idx = append(idx, it.evalTerm(a))
		}
		return it.elemLoc(c, idx)
	case "AsConstVector", "AsVector", "AsMagicVector":
		return &Container{Name: c.Name, Sym: sym.Fn("asvec", c.Sym), Rank: 1}
	case "ConstIterator", "Iterator", "MagicIterator", "ITERATOR", "ConstIteratorFrom":
		return &IterVal{C: c, Idx: sym.Sym([]string{"$j", "$k", "$l", "$m"}[it.loopDepth%4])}
	case "ElementType":
		return sym.Sym("elemtype")
	case "storageLocation":
		return sym.Fn("storage", c.Sym)
	}
	if strings.HasPrefix(name, "Clone") && len(call.Args) == 0 {
		// a private copy: same elements, another storage
		return &Container{Name: "clone(" + c.Name + ")", Sym: sym.Fn("clone", c.Sym), Rank: c.Rank, DimSym: c.dimSym()}
	}
	it.undecided(call.Pos(), "container method %s", name)
	return nil
}

func (it *Interp) scalarArgs(call *ast.CallExpr) (locs []*Loc, extra []Value) {
	for _, a := range call.Args {
		v := it.eval(a)
		switch t := v.(type) {
		case *Loc:
			locs = append(locs, t)
		default:
			extra = append(extra, v)
		}
	}
	return
}

func (it *Interp) scalarMethod(recv *Loc, name string, fn *types.Func, call *ast.CallExpr) Value {
	pos := call.Pos()
	lname := strings.ToLower(name)
	switch {
	case strings.HasPrefix(name, "GetFloat") || strings.HasPrefix(name, "GetInt"):
		if strings.HasPrefix(name, "GetInt") && !it.intType() {
			if it.cfg.IntSyms[recv.Val.String()] {
				return recv.Val
			}
			return sym.Fn("trunc", recv.Val)
		}
		return recv.Val
	case name == "GetOrder":
		if recv.Const {
			return sym.Zero()
		}
		return sym.Fn("order", sym.Sym(recv.Name))
	case name == "GetN":
		return sym.Fn("nvars", sym.Sym(recv.Name))
	case name == "Type":
		return sym.Sym("type(" + recv.Name + ")")
	case strings.HasPrefix(name, "Clone") && len(call.Args) == 0:
		l := it.newLoc("tmp", recv.Val)
		l.Consistent = recv.Consistent
		return l
	case name == "Equals" || name == "EQUALS":
		if len(call.Args) >= 1 {
			if o, ok := it.eval(call.Args[0]).(*Loc); ok {
				return &BoolVal{C: &Cond{Op: "equals", A: recv.Val, B: o.Val}}
			}
		}
		it.undecided(pos, "Equals operand")
		return nil
	case name == "Reset":
		recv.Val = sym.Zero()
		recv.Consistent = true
		recv.Written = true
		it.path.Events = append(it.path.Events, Event{Kind: "reset", Recv: recv, Pos: pos})
		return NilVal{}
	case name == "Set" || name == "SET":
		if len(call.Args) != 1 {
			it.undecided(pos, "Set arity")
		}
		src, ok := it.eval(call.Args[0]).(*Loc)
		if !ok {
			it.undecided(pos, "Set from non-scalar")
		}
		recv.Val = src.Val
		recv.Consistent = src.Consistent
		recv.Written = true
		it.path.Events = append(it.path.Events, Event{Kind: "set", Recv: recv, Operands: []*Loc{src}, Pos: pos})
		return NilVal{}
	case strings.HasPrefix(lname, "setfloat") || strings.HasPrefix(lname, "setint"):
		v := it.evalTerm(call.Args[0])
		recv.Val = v
		_, isConst := v.IsConst()
		recv.Consistent = isConst || v.String() == "-Inf" || v.String() == "+Inf" || v.String() == "NaN"
		recv.Written = true
		it.path.Events = append(it.path.Events, Event{Kind: "setfloat", Op: name, Recv: recv, V: []*sym.Term{v}, Pos: pos})
		return NilVal{}
	case name == "AllocForOne" || name == "AllocForTwo":
		locs, _ := it.scalarArgs(call)
		it.path.Events = append(it.path.Events, Event{Kind: "alloc", Op: name, Recv: recv, Operands: locs, Pos: pos})
		return NilVal{}
	case name == "Alloc" || name == "ResetDerivatives":
		return NilVal{}
	case name == "GetDerivative":
		return sym.Fn("D", sym.Sym(recv.Name), it.evalTerm(call.Args[0]))
	case name == "GetHessian":
		return sym.Fn("H", sym.Sym(recv.Name), it.evalTerm(call.Args[0]), it.evalTerm(call.Args[1]))
	case name == "SetDerivative":
		i := it.evalTerm(call.Args[0])
		v := it.evalTerm(call.Args[1])
		it.path.Events = append(it.path.Events, Event{Kind: "setderiv", Recv: recv, Idx: []*sym.Term{i}, V: []*sym.Term{v}, Pos: pos, Loops: append([]LoopCtx{}, it.loops...)})
		return NilVal{}
	case name == "SetHessian":
		i := it.evalTerm(call.Args[0])
		j := it.evalTerm(call.Args[1])
		v := it.evalTerm(call.Args[2])
		it.path.Events = append(it.path.Events, Event{Kind: "sethess", Recv: recv, Idx: []*sym.Term{i, j}, V: []*sym.Term{v}, Pos: pos, Loops: append([]LoopCtx{}, it.loops...)})
		return NilVal{}
	}
	if n, ok := combinators[name]; ok {
		return it.combinator(recv, name, n, call)
	}
	// Sign / Greater / Smaller / Equals: inline the body of the analysed type's method
	if it.cfg.InlineOps[lname] {
		return it.inlineMethod(recv, name, call)
	}
	// other scalar operation: apply its specification
	locs, extra := it.scalarArgs(call)
	var args []*sym.Term
	for _, l := range locs {
		args = append(args, l.Val)
	}
	if it.cfg.Spec == nil {
		it.undecided(pos, "no specification table for %s", name)
	}
	v, ok := it.cfg.Spec(lname, args, extra)
	if !ok {
		it.undecided(pos, "no specification for scalar operation %s", name)
	}
	cons := true
	for _, l := range locs {
		cons = cons && l.Consistent
	}
	// temporaries passed as trailing scalar arguments are clobbered
	recv.Val = v
	recv.Consistent = cons
	recv.Written = true
	it.path.Events = append(it.path.Events, Event{Kind: "op", Op: lname, Recv: recv, Operands: locs, V: []*sym.Term{v}, Pos: pos})
	it.clobberTemps(lname, locs, extra)
	return recv
}

// clobberTemps marks the temporaries handed to a composite operation as holding an unspecified value.
func (it *Interp) clobberTemps(lname string, locs []*Loc, extra []Value) {
	ntemp := map[string]int{"logadd": 1, "logsub": 1, "sigmoid": 1}[lname]
	for i := 0; i < ntemp; i++ {
		k := len(locs) - 1 - i
		if k >= 0 {
			l := locs[k]
			it.nloc++
			l.Val = sym.Sym(fmt.Sprintf("$clobbered%d", it.nloc))
			l.Written = true
		}
	}
	for _, e := range extra {
		if a, ok := e.(*ArrVal); ok {
			for _, l := range a.Elems {
				it.nloc++
				l.Val = sym.Sym(fmt.Sprintf("$clobbered%d", it.nloc))
				l.Written = true
			}
		}
	}
}

func (it *Interp) intType() bool {
	return strings.HasPrefix(it.cfg.TypeName, "Int") || strings.HasPrefix(it.cfg.TypeName, "ConstInt")
}

func (it *Interp) combinator(recv *Loc, name string, nops int, call *ast.CallExpr) Value {
	pos := call.Pos()
	if len(call.Args) < nops+1 {
		it.undecided(pos, "combinator arity")
	}
	var ops []*Loc
	for i := 0; i < nops; i++ {
		l, ok := it.eval(call.Args[i]).(*Loc)
		if !ok {
			it.undecided(pos, "combinator operand %d is not a scalar", i)
		}
		ops = append(ops, l)
	}
	rest := call.Args[nops:]
	var vs []*sym.Term
	lazy := strings.HasSuffix(name, "Lazy")
	if !lazy {
		for _, a := range rest {
			vs = append(vs, it.evalTerm(a))
		}
	} else {
		vs = append(vs, it.evalTerm(rest[0]))
		for _, a := range rest[1:] {
			cl, ok := it.eval(a).(*Closure)
			if !ok {
				it.undecided(pos, "lazy coefficient is not a closure")
			}
			r := it.callClosure(cl, &ast.CallExpr{Fun: a})
			switch t := r.(type) {
			case *sym.Term:
				vs = append(vs, t)
			case Tuple:
				for _, x := range t {
					vs = append(vs, it.toTerm(x, pos))
				}
			default:
				it.undecided(pos, "closure result %T", r)
			}
		}
	}
	want := 3
	if nops == 2 {
		want = 6
	}
	if len(vs) != want {
		it.undecided(pos, "combinator %s received %d coefficients, want %d", name, len(vs), want)
	}
	it.path.Events = append(it.path.Events, Event{Kind: "prim", Comb: name, Recv: recv, Operands: ops, V: vs, Pos: pos})
	recv.Val = vs[0]
	cons := true
	for _, l := range ops {
		cons = cons && l.Consistent
	}
	recv.Consistent = cons
	recv.Written = true
	return recv
}

// FindMethod finds method name on type tname.
func FindMethod(pkg *packages.Package, tname, name string) *ast.FuncDecl {
	for _, f := range pkg.Syntax {
		for _, d := range f.Decls {
			fd, ok := d.(*ast.FuncDecl)
			if !ok || fd.Body == nil || fd.Recv == nil || fd.Name.Name != name {
				continue
			}
			t := fd.Recv.List[0].Type
			if s, ok := t.(*ast.StarExpr); ok {
				t = s.X
			}
			if id, ok := t.(*ast.Ident); ok && id.Name == tname {
				return fd
			}
		}
	}
	return nil
}

func (it *Interp) inlineMethod(recv *Loc, name string, call *ast.CallExpr) Value {
	if it.depth >= it.cfg.MaxDepth+4 {
		it.undecided(call.Pos(), "inlining depth exceeded at %s", name)
	}
	fd := FindMethod(it.cfg.Pkg, it.cfg.TypeName, name)
	if fd == nil && len(call.Args) == 1 && (name == "Greater" || name == "Smaller") {
		// the scalar type is defined in another package: the order tests are the order of the values
		op := token.GTR
		if name == "Smaller" {
			op = token.LSS
		}
		return it.compare(op, recv, it.eval(call.Args[0]), call.Pos())
	}
	if fd == nil {
		it.undecided(call.Pos(), "no body for %s.%s", it.cfg.TypeName, name)
	}
	frame := map[types.Object]Value{}
	if len(fd.Recv.List[0].Names) > 0 {
		frame[it.info.Defs[fd.Recv.List[0].Names[0]]] = recv
	}
	k := 0
	for _, f := range fd.Type.Params.List {
		for _, n := range f.Names {
			if k < len(call.Args) {
				frame[it.info.Defs[n]] = it.eval(call.Args[k])
			}
			k++
		}
	}
	saveEnv, saveDone, saveRet := it.env, it.done, it.ret
	it.env = []map[types.Object]Value{frame}
	it.done, it.ret = false, nil
	it.depth++
	it.block(fd.Body.List)
	it.depth--
	r := it.ret
	it.env, it.done, it.ret = saveEnv, saveDone, saveRet
	if it.path.Panic {
		it.done = true
	}
	return r
}

// ---------------------------------------------------------------------------
// loops: accumulate idiom

func (it *Interp) forStmt(x *ast.ForStmt) {
	if it.cfg.UnrollConst && it.concreteLoop(x) {
		return
	}
	pos := x.Pos()
	it.env = append(it.env, map[types.Object]Value{})
	defer func() {
		if len(it.env) > 0 {
			it.env = it.env[:len(it.env)-1]
		}
	}()
	var lo, hi *sym.Term // inclusive bounds
	bname := []string{"$j", "$k", "$l", "$m"}[it.loopDepth%4]
	bound := sym.Sym(bname)
	it.loopDepth++
	defer func() { it.loopDepth-- }()
	// iterator loop
	if as, ok := x.Init.(*ast.AssignStmt); ok && len(as.Lhs) == 1 && len(as.Rhs) == 1 {
		id, _ := as.Lhs[0].(*ast.Ident)
		v := it.eval(as.Rhs[0])
		switch t := v.(type) {
		case *IterVal:
			t.Idx = bound
			it.setVar(it.info.Defs[id], t, true)
			lo = sym.Zero()
			hi = sym.Sub(sym.Fn("dim", t.C.Sym), sym.One())
			// cond it.Ok(), post it.Next() are accepted syntactically
			if !isIterCall(x.Cond, id.Name, "Ok") || !isIterPost(x.Post, id.Name) {
				it.undecided(pos, "iterator loop shape")
			}
		case *sym.Term:
			lo = t
			obj := it.info.Defs[id]
			if it.cfg.UnrollConst && it.unrollDown(x, obj, t) {
				return
			}
			it.setVar(obj, bound, true)
			it.loopVar[obj] = true
			be, ok := x.Cond.(*ast.BinaryExpr)
			if !ok {
				it.undecided(pos, "loop condition")
			}
			if cid, ok := be.X.(*ast.Ident); !ok || it.info.Uses[cid] != obj {
				it.undecided(pos, "loop condition variable")
			}
			// evaluate the bound outside the loop variable binding
			h := it.evalTerm(be.Y)
			switch be.Op {
			case token.LSS:
				hi = sym.Sub(h, sym.One())
			case token.LEQ:
				hi = h
			default:
				it.undecided(pos, "loop condition operator")
			}
			inc, ok := x.Post.(*ast.IncDecStmt)
			if !ok || inc.Tok != token.INC {
				it.undecided(pos, "loop post statement")
			}
			if pid, ok := inc.X.(*ast.Ident); !ok || it.info.Uses[pid] != obj {
				it.undecided(pos, "loop post variable")
			}
			if it.cfg.UnrollConst {
				cl, okL := lo.IsConst()
				ch, okH := hi.IsConst()
				if okL && okH && cl.IsInt() && ch.IsInt() {
					a, b := cl.Num().Int64(), ch.Num().Int64()
					if b-a < 16 {
						delete(it.loopVar, obj)
						it.unrolled++
						for v := a; v <= b && !it.done; v++ {
							it.setVar(obj, sym.Int(v), true)
							it.block(x.Body.List)
							if it.ctl == "break" {
								it.ctl = ""
								break
							}
							it.ctl = ""
						}
						it.unrolled--
						return
					}
				}
			}
		default:
			it.undecided(pos, "loop init %T", v)
		}
	} else {
		it.undecided(pos, "loop form")
	}
	// float locals (sum accumulators) and scalar locs: snapshot, replace by $old symbols
	type snap struct {
		loc *Loc
		old *sym.Term
		sym *sym.Term
	}
	var snaps []*snap
	for i, l := range it.path.Locs {
		s := &snap{loc: l, old: l.Val, sym: sym.Sym(fmt.Sprintf("$old%d", i))}
		snaps = append(snaps, s)
		l.Val = s.sym
	}
	type fsnap struct {
		obj types.Object
		lvl int
		old *sym.Term
		sym *sym.Term
	}
	var fsnaps []*fsnap
	for lvl, fr := range it.env {
		for o, v := range fr {
			if t, ok := v.(*sym.Term); ok && !it.loopVar[o] {
				if _, isC := t.IsConst(); isC || true {
					fs := &fsnap{obj: o, lvl: lvl, old: t, sym: sym.Sym(fmt.Sprintf("$fold%d_%d", lvl, len(fsnaps)))}
					fsnaps = append(fsnaps, fs)
				}
			}
		}
	}
	// only float locals assigned in the body need the treatment
	assigned := map[types.Object]bool{}
	ast.Inspect(x.Body, func(n ast.Node) bool {
		if as, ok := n.(*ast.AssignStmt); ok {
			for _, l := range as.Lhs {
				if id, ok := l.(*ast.Ident); ok {
					if o := it.info.Uses[id]; o != nil {
						assigned[o] = true
					}
				}
			}
		}
		return true
	})
	var fs2 []*fsnap
	for _, fs := range fsnaps {
		if assigned[fs.obj] {
			it.env[fs.lvl][fs.obj] = fs.sym
			fs2 = append(fs2, fs)
		}
	}
	nEventsBefore := len(it.path.Events)
	nCondsBefore := len(it.path.Conds)
	it.loops = append(it.loops, LoopCtx{Var: bname, Lo: lo, Hi: hi})
	it.block(x.Body.List)
	it.loops = it.loops[:len(it.loops)-1]
	if it.done && !it.path.Panic && !it.cfg.KernelMode {
		it.undecided(pos, "return inside loop")
	}
	if len(it.path.Conds) != nCondsBefore && !it.cfg.KernelMode {
		it.undecided(pos, "data-dependent branch inside loop body (%s)", it.path.Conds[len(it.path.Conds)-1])
	}
	_ = nEventsBefore
	olds := map[*sym.Atom]bool{}
	for _, s := range snaps {
		olds[sym.SymAtom(s.sym.String())] = true
	}
	for _, s := range fs2 {
		olds[sym.SymAtom(s.sym.String())] = true
	}
	dependsOnOld := func(t *sym.Term) bool {
		for a := range olds {
			if t.DependsOn(a) {
				return true
			}
		}
		return false
	}
	finish := func(newV, oldSym, oldVal *sym.Term, what string) *sym.Term {
		if sym.Equal(newV, oldSym) {
			return oldVal // untouched
		}
		if !dependsOnOld(newV) {
			// loop-local temporary: value of the last iteration (unspecified if the loop does not run)
			it.nloc++
			return sym.Fn("lastiter", sym.Int(int64(it.nloc)))
		}
		t := sym.Sub(newV, oldSym)
		if !dependsOnOld(t) {
			return sym.Add(oldVal, sym.SumVar(bname, lo, hi, t))
		}
		// log-sum-exp accumulation: exp(new) - exp(old) independent of old
		e := sym.Sub(sym.Fn("exp", newV), sym.Fn("exp", oldSym))
		if !dependsOnOld(e) {
			return sym.Fn("log", sym.Add(sym.Fn("exp", oldVal), sym.SumVar(bname, lo, hi, e)))
		}
		it.undecided(pos, "loop-carried value of %s is not an accumulation: %s", what, newV)
		return nil
	}
	// locations and locals the body left untouched keep their value: substitute it back
	back := map[*sym.Atom]*sym.Term{}
	for _, s := range snaps {
		if sym.Equal(s.loc.Val, s.sym) {
			back[sym.SymAtom(s.sym.String())] = s.old
			delete(olds, sym.SymAtom(s.sym.String()))
		}
	}
	for _, s := range fs2 {
		if cur, ok := it.env[s.lvl][s.obj].(*sym.Term); ok && sym.Equal(cur, s.sym) {
			back[sym.SymAtom(s.sym.String())] = s.old
			delete(olds, sym.SymAtom(s.sym.String()))
		}
	}
	if len(back) > 0 {
		for _, s := range snaps {
			s.loc.Val = sym.Subst(s.loc.Val, back)
		}
		for _, s := range fs2 {
			if cur, ok := it.env[s.lvl][s.obj].(*sym.Term); ok {
				it.env[s.lvl][s.obj] = sym.Subst(cur, back)
			}
		}
	}
	for _, s := range snaps {
		if _, untouched := back[sym.SymAtom(s.sym.String())]; untouched {
			continue
		}
		s.loc.Val = finish(s.loc.Val, s.sym, s.old, s.loc.Name)
	}
	for _, s := range fs2 {
		if _, untouched := back[sym.SymAtom(s.sym.String())]; untouched {
			continue
		}
		cur, _ := it.env[s.lvl][s.obj].(*sym.Term)
		if cur == nil {
			it.undecided(pos, "float local changed kind in loop")
		}
		it.env[s.lvl][s.obj] = finish(cur, s.sym, s.old, s.obj.Name())
	}
	if it.cfg.KernelMode {
		it.closeElems(bname, append(append([]LoopCtx{}, it.loops...), LoopCtx{Var: bname, Lo: lo, Hi: hi}))
	}
}

func isIterCall(e ast.Expr, id, method string) bool {
	ce, ok := e.(*ast.CallExpr)
	if !ok {
		return false
	}
	se, ok := ce.Fun.(*ast.SelectorExpr)
	if !ok || se.Sel.Name != method {
		return false
	}
	x, ok := se.X.(*ast.Ident)
	return ok && x.Name == id
}

func isIterPost(s ast.Stmt, id string) bool {
	es, ok := s.(*ast.ExprStmt)
	return ok && isIterCall(es.X, id, "Next")
}
