package sym

import "math/big"

// ExpPow is exp(u) with every summand c*log(w) of u (c rational, unit denominator of u) turned into w^c; the other
// summands go through the ordinary exponential. Valid where the w are positive.
func ExpPow(u *Term) *Term {
	dc, ok := u.D.isConst()
	if !ok || dc.Cmp(big.NewRat(1, 1)) != 0 {
		return expOf(u)
	}
	res := One()
	rest := Zero()
	for _, x := range u.N.sorted() {
		if len(x.m) == 1 && x.m[0].E == 1 && x.m[0].A.Kind == "log" {
			res = Mul(res, Pow(x.m[0].A.Args[0], Const(x.c)))
			continue
		}
		mp := Poly{}
		mp.addTerm(x.m, x.c)
		rest = Add(rest, mk(mp, polyConst(big.NewRat(1, 1))))
	}
	return Mul(res, expOf(rest))
}

// UnifyExp rewrites the terms so that exponentials whose arguments are rational multiples of one another are powers of
// one atom: exp(x) and exp(x/2) become exp(x/2)^2 and exp(x/2).
func UnifyExp(ts ...*Term) []*Term {
	var atoms []*Atom
	seen := map[*Atom]bool{}
	var visit func(t *Term)
	visit = func(t *Term) {
		for _, a := range t.Atoms() {
			if seen[a] {
				continue
			}
			seen[a] = true
			for _, arg := range a.Args {
				visit(arg)
			}
			if a.Kind == "exp" && len(a.Args) == 1 {
				atoms = append(atoms, a)
			}
		}
	}
	for _, t := range ts {
		visit(t)
	}
	sub := map[*Atom]*Term{}
	used := make([]bool, len(atoms))
	for i, a := range atoms {
		if used[i] {
			continue
		}
		group := []int{i}
		ratios := []*big.Rat{big.NewRat(1, 1)}
		for j := i + 1; j < len(atoms); j++ {
			if used[j] {
				continue
			}
			if r, ok := Div(atoms[j].Args[0], a.Args[0]).IsConst(); ok && r.Sign() != 0 {
				group = append(group, j)
				ratios = append(ratios, r)
				used[j] = true
			}
		}
		if len(group) == 1 {
			continue
		}
		l := big.NewInt(1)
		for _, r := range ratios {
			g := new(big.Int).GCD(nil, nil, l, r.Denom())
			l.Mul(l, new(big.Int).Div(r.Denom(), g))
		}
		base := Div(a.Args[0], Const(new(big.Rat).SetInt(l)))
		// the raw atom exp(base)
		ba := fromAtom(intern("exp", "", []*Term{base}))
		for k, j := range group {
			e := new(big.Rat).Mul(ratios[k], new(big.Rat).SetInt(l))
			if !e.IsInt() || !e.Num().IsInt64() {
				continue
			}
			n := int(e.Num().Int64())
			if n > 64 || n < -64 {
				continue
			}
			sub[atoms[j]] = PowInt(ba, n)
		}
	}
	if len(sub) == 0 {
		return ts
	}
	out := make([]*Term, len(ts))
	for i, t := range ts {
		out[i] = substRaw(t, sub)
	}
	return out
}

// substRaw replaces top-level and nested atoms without re-canonicalising the replacements' arguments.
func substRaw(t *Term, m map[*Atom]*Term) *Term {
	sp := func(p Poly) *Term {
		res := Zero()
		for _, x := range p.sorted() {
			tm := Const(x.c)
			for _, f := range x.m {
				var at *Term
				if r, ok := m[f.A]; ok {
					at = r
				} else if f.A.Kind == "sym" || len(f.A.Args) == 0 {
					at = fromAtom(f.A)
				} else {
					args := make([]*Term, len(f.A.Args))
					changed := false
					for i, a := range f.A.Args {
						args[i] = substRaw(a, m)
						if args[i] != a && !Equal(args[i], a) {
							changed = true
						}
					}
					if !changed {
						at = fromAtom(f.A)
					} else {
						at = fromAtom(intern(f.A.Kind, f.A.Name, args))
					}
				}
				tm = Mul(tm, PowInt(at, f.E))
			}
			res = Add(res, tm)
		}
		return res
	}
	return Div(sp(t.N), sp(t.D))
}

// NormExp rewrites every exponential exp(u) inside t (recursively) by ExpPow(u): exp(c*log w + r) = w^c * exp(r).
func NormExp(t *Term) *Term {
	sub := map[*Atom]*Term{}
	seen := map[*Atom]bool{}
	var visit func(t *Term)
	visit = func(t *Term) {
		for _, a := range t.Atoms() {
			if seen[a] {
				continue
			}
			seen[a] = true
			for _, arg := range a.Args {
				visit(arg)
			}
			if a.Kind == "exp" && len(a.Args) == 1 {
				hasLog := false
				for _, x := range a.Args[0].N {
					if len(x.m) == 1 && x.m[0].E == 1 && x.m[0].A.Kind == "log" {
						hasLog = true
					}
				}
				if hasLog {
					sub[a] = ExpPow(NormExp(a.Args[0]))
				}
			}
		}
	}
	visit(t)
	if len(sub) == 0 {
		return t
	}
	return substRaw(t, sub)
}

// SplitPow rewrites pow(c * prod f_i^k_i / (d * prod g_j^m_j), e) with a constant exponent e into
// pow(c/d, e) * prod pow(f_i, e*k_i) / prod pow(g_j, e*m_j). Valid where all factors are positive.
func SplitPow(t *Term) *Term {
	sub := map[*Atom]*Term{}
	seen := map[*Atom]bool{}
	var visit func(t *Term)
	mono := func(p Poly) (*pterm, bool) {
		if len(p) != 1 {
			return nil, false
		}
		for _, x := range p {
			return x, x.c.Sign() > 0
		}
		return nil, false
	}
	visit = func(t *Term) {
		for _, a := range t.Atoms() {
			if seen[a] {
				continue
			}
			seen[a] = true
			for _, arg := range a.Args {
				visit(arg)
			}
			if a.Kind != "pow" || len(a.Args) != 2 {
				continue
			}
			e, ok := a.Args[1].IsConst()
			if !ok {
				continue
			}
			n, ok1 := mono(a.Args[0].N)
			d, ok2 := mono(a.Args[0].D)
			if !ok1 || !ok2 {
				continue
			}
			nf := len(n.m) + len(d.m)
			coef := new(big.Rat).Quo(n.c, d.c)
			if nf == 0 || (nf == 1 && coef.Cmp(big.NewRat(1, 1)) == 0 && len(n.m) == 1 && n.m[0].E == 1) {
				continue // already atomic
			}
			res := One()
			if coef.Cmp(big.NewRat(1, 1)) != 0 {
				res = Pow(Const(coef), Const(e))
			}
			for _, f := range n.m {
				res = Mul(res, Pow(fromAtom(f.A), Const(new(big.Rat).Mul(e, big.NewRat(int64(f.E), 1)))))
			}
			for _, f := range d.m {
				res = Mul(res, Pow(fromAtom(f.A), Const(new(big.Rat).Mul(e, big.NewRat(int64(-f.E), 1)))))
			}
			sub[a] = res
		}
	}
	visit(t)
	if len(sub) == 0 {
		return t
	}
	return substRaw(t, sub)
}
