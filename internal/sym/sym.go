// Package sym is the term algebra (engine E2): rational functions over
// canonicalised function atoms with exact rational coefficients, a fixed set of
// atom relations, and a differentiation table (the trusted mathematics).
package sym

import (
	"fmt"
	"math/big"
	"sort"
	"strings"
)

// Atom is a symbol or a function application with canonical arguments.
type Atom struct {
	Kind string // "sym" or function name
	Name string // for symbols
	Args []*Term
	key  string
}

func (a *Atom) Key() string { return a.key }

var atoms = map[string]*Atom{}

func intern(kind, name string, args []*Term) *Atom {
	var sb strings.Builder
	if kind == "sym" {
		sb.WriteString(name)
	} else {
		sb.WriteString(kind)
		if name != "" {
			sb.WriteString("[" + name + "]")
		}
		sb.WriteString("(")
		for i, a := range args {
			if i > 0 {
				sb.WriteString(", ")
			}
			sb.WriteString(a.String())
		}
		sb.WriteString(")")
	}
	k := sb.String()
	if a, ok := atoms[k]; ok {
		return a
	}
	a := &Atom{Kind: kind, Name: name, Args: args, key: k}
	atoms[k] = a
	return a
}

// Factor is atom^exp, exp >= 1.
type Factor struct {
	A *Atom
	E int
}

// Mono is a product of factors sorted by atom key.
type Mono []Factor

func (m Mono) key() string {
	if len(m) == 0 {
		return "1"
	}
	var sb strings.Builder
	for i, f := range m {
		if i > 0 {
			sb.WriteString("*")
		}
		sb.WriteString(f.A.key)
		if f.E != 1 {
			fmt.Fprintf(&sb, "^%d", f.E)
		}
	}
	return sb.String()
}

func mulMono(a, b Mono) Mono {
	r := make(Mono, 0, len(a)+len(b))
	i, j := 0, 0
	for i < len(a) && j < len(b) {
		switch {
		case a[i].A == b[j].A:
			r = append(r, Factor{a[i].A, a[i].E + b[j].E})
			i++
			j++
		case a[i].A.key < b[j].A.key:
			r = append(r, a[i])
			i++
		default:
			r = append(r, b[j])
			j++
		}
	}
	r = append(r, a[i:]...)
	r = append(r, b[j:]...)
	return r
}

type pterm struct {
	m Mono
	c *big.Rat
}

// Poly maps monomial key to term.
type Poly map[string]*pterm

func polyConst(c *big.Rat) Poly {
	p := Poly{}
	if c.Sign() != 0 {
		p["1"] = &pterm{nil, new(big.Rat).Set(c)}
	}
	return p
}

func (p Poly) clone() Poly {
	r := Poly{}
	for k, t := range p {
		r[k] = &pterm{t.m, new(big.Rat).Set(t.c)}
	}
	return r
}

func (p Poly) addTerm(m Mono, c *big.Rat) {
	if c.Sign() == 0 {
		return
	}
	k := m.key()
	if t, ok := p[k]; ok {
		t.c.Add(t.c, c)
		if t.c.Sign() == 0 {
			delete(p, k)
		}
		return
	}
	p[k] = &pterm{m, new(big.Rat).Set(c)}
}

func addPoly(a, b Poly) Poly {
	r := a.clone()
	for _, t := range b {
		r.addTerm(t.m, t.c)
	}
	return r
}

func scalePoly(a Poly, c *big.Rat) Poly {
	r := Poly{}
	if c.Sign() == 0 {
		return r
	}
	for k, t := range a {
		r[k] = &pterm{t.m, new(big.Rat).Mul(t.c, c)}
	}
	return r
}

func mulPoly(a, b Poly) Poly {
	r := Poly{}
	for _, x := range a {
		for _, y := range b {
			r.addTerm(mulMono(x.m, y.m), new(big.Rat).Mul(x.c, y.c))
		}
	}
	return reduce(r)
}

func (p Poly) isZero() bool { return len(p) == 0 }

func (p Poly) isConst() (*big.Rat, bool) {
	if len(p) == 0 {
		return new(big.Rat), true
	}
	if len(p) == 1 {
		if t, ok := p["1"]; ok {
			return t.c, true
		}
	}
	return nil, false
}

func (p Poly) sorted() []*pterm {
	keys := make([]string, 0, len(p))
	for k := range p {
		keys = append(keys, k)
	}
	sort.Strings(keys)
	r := make([]*pterm, len(keys))
	for i, k := range keys {
		r[i] = p[k]
	}
	return r
}

func (p Poly) String() string {
	if len(p) == 0 {
		return "0"
	}
	var sb strings.Builder
	for i, t := range p.sorted() {
		if i > 0 {
			sb.WriteString(" + ")
		}
		k := t.m.key()
		if k == "1" {
			sb.WriteString(t.c.RatString())
		} else if t.c.Cmp(big.NewRat(1, 1)) == 0 {
			sb.WriteString(k)
		} else {
			sb.WriteString(t.c.RatString() + "*" + k)
		}
	}
	return sb.String()
}

// reduce applies the polynomial atom relations until none applies:
// sin^2 -> 1-cos^2, cosh^2 -> 1+sinh^2, sqrtpi^2 -> pi, pow(x,p/q)^q -> x^p (x polynomial).
func reduce(p Poly) Poly {
	for iter := 0; iter < 64; iter++ {
		changed := false
		r := Poly{}
		for _, t := range p {
			done := false
			for i, f := range t.m {
				if f.E < 2 {
					continue
				}
				var repl Poly
				consumed := 2
				switch f.A.Kind {
				case "sin":
					c := intern("cos", "", f.A.Args)
					repl = Poly{}
					repl.addTerm(nil, big.NewRat(1, 1))
					repl.addTerm(Mono{{c, 2}}, big.NewRat(-1, 1))
				case "cosh":
					s := intern("sinh", "", f.A.Args)
					repl = Poly{}
					repl.addTerm(nil, big.NewRat(1, 1))
					repl.addTerm(Mono{{s, 2}}, big.NewRat(1, 1))
				case "sym":
					if f.A.Name == "sqrtpi" {
						repl = Poly{}
						repl.addTerm(Mono{{intern("sym", "pi", nil), 1}}, big.NewRat(1, 1))
					}
				case "pow":
					// pow(x, p/q) with constant exponent and polynomial base
					if c, ok := f.A.Args[1].IsConst(); ok && c.IsInt() == false {
						q := int(c.Denom().Int64())
						pn := int(c.Num().Int64())
						base := f.A.Args[0]
						if _, one := base.D.isConst(); one && f.E >= q && q > 0 && pn > 0 && q < 16 {
							if dc, _ := base.D.isConst(); dc.Cmp(big.NewRat(1, 1)) == 0 {
								repl = polyPow(base.N, pn)
								consumed = q
							}
						}
					}
				}
				if repl == nil {
					continue
				}
				// rest = monomial without 'consumed' powers of f
				rest := make(Mono, 0, len(t.m))
				for j, g := range t.m {
					if j == i {
						if g.E-consumed > 0 {
							rest = append(rest, Factor{g.A, g.E - consumed})
						}
					} else {
						rest = append(rest, g)
					}
				}
				for _, rt := range repl {
					r.addTerm(mulMono(rest, rt.m), new(big.Rat).Mul(t.c, rt.c))
				}
				done = true
				changed = true
				break
			}
			if !done {
				r.addTerm(t.m, t.c)
			}
		}
		p = r
		if !changed {
			break
		}
	}
	return p
}

func polyPow(p Poly, k int) Poly {
	r := polyConst(big.NewRat(1, 1))
	for i := 0; i < k; i++ {
		r = mulPoly(r, p)
	}
	return r
}

// ---------------------------------------------------------------------------

// Term is a rational function N/D.
type Term struct {
	N, D Poly
	str  string
}

func mk(n, d Poly) *Term {
	t := &Term{N: n, D: d}
	t.simplify()
	return t
}

func (t *Term) simplify() {
	if t.N.isZero() {
		t.D = polyConst(big.NewRat(1, 1))
		return
	}
	// common monomial factor
	common := map[*Atom]int{}
	first := true
	scan := func(p Poly) {
		for _, x := range p {
			cur := map[*Atom]int{}
			for _, f := range x.m {
				cur[f.A] = f.E
			}
			if first {
				for a, e := range cur {
					common[a] = e
				}
				first = false
			} else {
				for a, e := range common {
					if ce, ok := cur[a]; !ok {
						delete(common, a)
					} else if ce < e {
						common[a] = ce
					}
				}
			}
		}
	}
	scan(t.N)
	scan(t.D)
	if len(common) > 0 {
		div := func(p Poly) Poly {
			r := Poly{}
			for _, x := range p {
				m := make(Mono, 0, len(x.m))
				for _, f := range x.m {
					e := f.E - common[f.A]
					if e > 0 {
						m = append(m, Factor{f.A, e})
					}
				}
				r.addTerm(m, x.c)
			}
			return r
		}
		t.N, t.D = div(t.N), div(t.D)
	}
	// normalise: coefficient of the smallest monomial of D becomes 1
	ds := t.D.sorted()
	lead := ds[0].c
	if lead.Cmp(big.NewRat(1, 1)) != 0 {
		inv := new(big.Rat).Inv(lead)
		t.N = scalePoly(t.N, inv)
		t.D = scalePoly(t.D, inv)
	}
	// exact division when N is a constant multiple of D
	if len(t.N) == len(t.D) && len(t.D) > 1 {
		var ratio *big.Rat
		ok := true
		for k, d := range t.D {
			n, has := t.N[k]
			if !has {
				ok = false
				break
			}
			q := new(big.Rat).Quo(n.c, d.c)
			if ratio == nil {
				ratio = q
			} else if ratio.Cmp(q) != 0 {
				ok = false
				break
			}
		}
		if ok && ratio != nil {
			t.N = polyConst(ratio)
			t.D = polyConst(big.NewRat(1, 1))
		}
	}
}

func (t *Term) String() string {
	if t.str != "" {
		return t.str
	}
	if c, ok := t.D.isConst(); ok && c.Cmp(big.NewRat(1, 1)) == 0 {
		if len(t.N) <= 1 {
			t.str = t.N.String()
		} else {
			t.str = "(" + t.N.String() + ")"
		}
	} else {
		t.str = "(" + t.N.String() + ")/(" + t.D.String() + ")"
	}
	return t.str
}

func Const(c *big.Rat) *Term { return mk(polyConst(c), polyConst(big.NewRat(1, 1))) }
func Int(n int64) *Term      { return Const(big.NewRat(n, 1)) }
func Rat(a, b int64) *Term   { return Const(big.NewRat(a, b)) }
func Zero() *Term            { return Int(0) }
func One() *Term             { return Int(1) }

func fromAtom(a *Atom) *Term {
	p := Poly{}
	p.addTerm(Mono{{a, 1}}, big.NewRat(1, 1))
	return mk(p, polyConst(big.NewRat(1, 1)))
}

// Sym returns the symbol term.
func Sym(name string) *Term { return fromAtom(intern("sym", name, nil)) }

func SymAtom(name string) *Atom { return intern("sym", name, nil) }

func Add(a, b *Term) *Term {
	return mk(addPoly(mulPoly(a.N, b.D), mulPoly(b.N, a.D)), mulPoly(a.D, b.D))
}
func Neg(a *Term) *Term    { return mk(scalePoly(a.N, big.NewRat(-1, 1)), a.D.clone()) }
func Sub(a, b *Term) *Term { return Add(a, Neg(b)) }
func Mul(a, b *Term) *Term { return mk(mulPoly(a.N, b.N), mulPoly(a.D, b.D)) }
func Div(a, b *Term) *Term {
	if b.N.isZero() {
		return fromAtom(intern("divzero", "", []*Term{a}))
	}
	return mk(mulPoly(a.N, b.D), mulPoly(a.D, b.N))
}
func PowInt(a *Term, k int) *Term {
	if k < 0 {
		return Div(One(), PowInt(a, -k))
	}
	r := One()
	for i := 0; i < k; i++ {
		r = Mul(r, a)
	}
	return r
}

func (t *Term) IsZero() bool { return t.N.isZero() }

// IsConst reports whether t is a rational constant.
func (t *Term) IsConst() (*big.Rat, bool) {
	d, ok := t.D.isConst()
	if !ok {
		return nil, false
	}
	n, ok := t.N.isConst()
	if !ok {
		return nil, false
	}
	return new(big.Rat).Quo(n, d), true
}

// Equal decides a == b by cross multiplication of normal forms.
func Equal(a, b *Term) bool {
	l := mulPoly(a.N, b.D)
	r := mulPoly(b.N, a.D)
	return addPoly(l, scalePoly(r, big.NewRat(-1, 1))).isZero()
}

// Atoms returns all atoms occurring in t (not recursing into arguments).
func (t *Term) Atoms() []*Atom {
	seen := map[*Atom]bool{}
	var r []*Atom
	for _, p := range []Poly{t.N, t.D} {
		for _, x := range p {
			for _, f := range x.m {
				if !seen[f.A] {
					seen[f.A] = true
					r = append(r, f.A)
				}
			}
		}
	}
	sort.Slice(r, func(i, j int) bool { return r[i].key < r[j].key })
	return r
}

// DependsOn reports whether symbol x occurs anywhere in t.
func (t *Term) DependsOn(x *Atom) bool {
	for _, a := range t.Atoms() {
		if a == x {
			return true
		}
		for _, arg := range a.Args {
			if arg.DependsOn(x) {
				return true
			}
		}
	}
	return false
}

// singleAtom returns (atom, exponent, coefficient) if t = c*atom^e (D = 1).
func (t *Term) singleFactorMono() (Mono, *big.Rat, bool) {
	if c, ok := t.D.isConst(); !ok || c.Cmp(big.NewRat(1, 1)) != 0 || len(t.N) != 1 {
		return nil, nil, false
	}
	for _, x := range t.N {
		return x.m, x.c, true
	}
	return nil, nil, false
}

// ---------------------------------------------------------------------------
// function atoms with canonicalisation

// Fn builds f(args...) applying the atom relations.
func Fn(name string, args ...*Term) *Term {
	switch name {
	case "log1p":
		return Fn("log", Add(One(), args[0]))
	case "tan":
		return Div(Fn("sin", args[0]), Fn("cos", args[0]))
	case "tanh":
		return Div(Fn("sinh", args[0]), Fn("cosh", args[0]))
	case "erfc":
		return Sub(One(), Fn("erf", args[0]))
	case "logerfc":
		return Fn("log", Fn("erfc", args[0]))
	case "logbesseli":
		return Fn("log", Fn("besseli", args[0], args[1]))
	case "sqrt":
		return Pow(args[0], Rat(1, 2))
	case "exp":
		return expOf(args[0])
	case "log":
		return logOf(args[0])
	case "pow":
		return Pow(args[0], args[1])
	case "besseli":
		return besselI(args[0], args[1])
	case "sin", "sinh":
		// odd functions: sin(-u) = -sin(u) -- canonical sign by leading coefficient
		if neg, u := canonSign(args[0]); neg {
			return Neg(fromAtom(intern(name, "", []*Term{u})))
		}
	case "cos", "cosh":
		if neg, u := canonSign(args[0]); neg {
			return fromAtom(intern(name, "", []*Term{u}))
		}
	case "erf":
		if neg, u := canonSign(args[0]); neg {
			return Neg(fromAtom(intern(name, "", []*Term{u})))
		}
	}
	return fromAtom(intern(name, "", args))
}

// canonSign: if the coefficient of the smallest monomial of N is negative, returns (true, -u).
func canonSign(u *Term) (bool, *Term) {
	if u.N.isZero() {
		return false, u
	}
	if u.N.sorted()[0].c.Sign() < 0 {
		return true, Neg(u)
	}
	return false, u
}

func expOf(u *Term) *Term {
	if u.IsZero() {
		return One()
	}
	if u.String() == "-Inf" {
		return Zero() // e^{-inf} = 0
	}
	res := One()
	den := mk(u.D.clone(), polyConst(big.NewRat(1, 1)))
	for _, x := range u.N.sorted() {
		c := x.c
		p := new(big.Int).Set(c.Num())
		q := new(big.Int).Set(c.Denom())
		// piece = (p/q) * m / D
		mp := Poly{}
		mp.addTerm(x.m, big.NewRat(1, 1))
		m := mk(mp, polyConst(big.NewRat(1, 1)))
		k := int(p.Int64())
		// exp(k * log(w)) = w^k
		if q.IsInt64() && q.Int64() == 1 {
			if dc, ok := u.D.isConst(); ok && dc.Cmp(big.NewRat(1, 1)) == 0 && len(x.m) == 1 && x.m[0].E == 1 && x.m[0].A.Kind == "log" {
				res = Mul(res, PowInt(x.m[0].A.Args[0], k))
				continue
			}
		}
		if !p.IsInt64() || k > 64 || k < -64 {
			// a large numerator stays inside the argument (exp(c*m) as one atom)
			arg := Div(Mul(Const(c), m), den)
			res = Mul(res, fromAtom(intern("exp", "", []*Term{arg})))
			continue
		}
		arg := Div(m, Mul(Const(new(big.Rat).SetInt(q)), den))
		a := fromAtom(intern("exp", "", []*Term{arg}))
		res = Mul(res, PowInt(a, k))
	}
	return res
}

func logOf(u *Term) *Term {
	if c, ok := u.IsConst(); ok && c.Cmp(big.NewRat(1, 1)) == 0 {
		return Zero()
	}
	// log(prod exp(w_i)^k_i) = sum k_i w_i  (pure exp monomials, coefficient 1)
	onlyExp := func(p Poly) (*Term, bool) {
		if len(p) != 1 {
			return nil, false
		}
		for _, x := range p {
			if x.c.Cmp(big.NewRat(1, 1)) != 0 {
				return nil, false
			}
			s := Zero()
			for _, f := range x.m {
				if f.A.Kind != "exp" {
					return nil, false
				}
				s = Add(s, Mul(Int(int64(f.E)), f.A.Args[0]))
			}
			return s, true
		}
		return nil, false
	}
	if n, ok := onlyExp(u.N); ok {
		if d, ok := onlyExp(u.D); ok {
			return Sub(n, d)
		}
	}
	return fromAtom(intern("log", "", []*Term{u}))
}

// splitConst splits e into (e - c, c) where c is the constant term of e (only when D is constant).
func splitConst(e *Term) (*Term, *big.Rat) {
	dc, ok := e.D.isConst()
	if !ok {
		return e, new(big.Rat)
	}
	t, has := e.N["1"]
	if !has {
		return e, new(big.Rat)
	}
	c := new(big.Rat).Quo(t.c, dc)
	return Sub(e, Const(c)), c
}

// Pow builds base^expo.
func Pow(base, expo *Term) *Term {
	if c, ok := expo.IsConst(); ok && c.IsInt() && c.Num().IsInt64() {
		k := c.Num().Int64()
		if k > -64 && k < 64 {
			return PowInt(base, int(k))
		}
	}
	rest, c := splitConst(expo)
	// integer part of the constant offset
	fl := new(big.Int)
	num := new(big.Int).Set(c.Num())
	fl.Div(num, c.Denom()) // Euclidean: floor for positive denominators
	frac := new(big.Rat).Sub(c, new(big.Rat).SetInt(fl))
	e := Add(rest, Const(frac))
	k := int(fl.Int64())
	if e.IsZero() {
		return PowInt(base, k)
	}
	a := fromAtom(intern("pow", "", []*Term{base, e}))
	return Mul(a, PowInt(base, k))
}

// besselI(mu, x) rewritten to the basis {I(nu,x), I(nu-1,x)} where mu = nu + k, k integer.
func besselI(mu, x *Term) *Term {
	nu, c := splitConst(mu)
	fl := new(big.Int)
	fl.Div(new(big.Int).Set(c.Num()), c.Denom())
	frac := new(big.Rat).Sub(c, new(big.Rat).SetInt(fl))
	nu = Add(nu, Const(frac))
	k := int(fl.Int64())
	i0 := fromAtom(intern("besseli", "", []*Term{nu, x}))
	im1 := fromAtom(intern("besseli", "", []*Term{Sub(nu, One()), x}))
	if k > 8 || k < -8 {
		return fromAtom(intern("besseli", "", []*Term{mu, x}))
	}
	// I_{m+1} = I_{m-1} - (2m/x) I_m ;  I_{m-1} = I_{m+1} + (2m/x) I_m
	get := map[int]*Term{0: i0, -1: im1}
	var rec func(j int) *Term
	rec = func(j int) *Term {
		if t, ok := get[j]; ok {
			return t
		}
		var r *Term
		if j > 0 {
			m := Add(nu, Int(int64(j-1)))
			r = Sub(rec(j-2), Mul(Div(Mul(Int(2), m), x), rec(j-1)))
		} else {
			m := Add(nu, Int(int64(j+1)))
			r = Add(rec(j+2), Mul(Div(Mul(Int(2), m), x), rec(j+1)))
		}
		get[j] = r
		return r
	}
	return rec(k)
}

// Sum builds sum_{j=lo}^{hi} body where body mentions the bound symbol "$j".
func Sum(lo, hi, body *Term) *Term {
	return SumVar("$j", lo, hi, body)
}

// SumVar is Sum with an explicit bound symbol. A small positive constant lower
// bound is normalised to 0: sum_{lo}^{hi} f = sum_{0}^{hi} f - f(0) - ... - f(lo-1).
func SumVar(v string, lo, hi, body *Term) *Term {
	if body.IsZero() {
		return Zero()
	}
	bv := SymAtom(v)
	if !body.DependsOn(bv) {
		// constant body: (hi-lo+1)*body
		return Mul(Add(Sub(hi, lo), One()), body)
	}
	if c, ok := lo.IsConst(); ok && c.IsInt() && c.Sign() > 0 && c.Num().Int64() <= 4 {
		r := fromAtom(intern("sum", v, []*Term{Zero(), hi, body}))
		for k := int64(0); k < c.Num().Int64(); k++ {
			r = Sub(r, Subst(body, map[*Atom]*Term{bv: Int(k)}))
		}
		return r
	}
	return fromAtom(intern("sum", v, []*Term{lo, hi, body}))
}

// ---------------------------------------------------------------------------
// differentiation (the trusted table)

type DiffError struct{ Msg string }

func (e *DiffError) Error() string { return e.Msg }

// Diff returns d t / d x.
func Diff(t *Term, x *Atom) (*Term, error) {
	dn, err := diffPoly(t.N, x)
	if err != nil {
		return nil, err
	}
	dd, err := diffPoly(t.D, x)
	if err != nil {
		return nil, err
	}
	n := mk(t.N.clone(), polyConst(big.NewRat(1, 1)))
	d := mk(t.D.clone(), polyConst(big.NewRat(1, 1)))
	if dd.IsZero() {
		return Div(dn, d), nil
	}
	return Div(Sub(Mul(dn, d), Mul(n, dd)), Mul(d, d)), nil
}

func diffPoly(p Poly, x *Atom) (*Term, error) {
	res := Zero()
	for _, t := range p.sorted() {
		// d(c * prod f_i^e_i) = c * sum_i e_i f_i^(e_i-1) f_i' prod_{j!=i} f_j^e_j
		for i, f := range t.m {
			da, err := diffAtom(f.A, x)
			if err != nil {
				return nil, err
			}
			if da.IsZero() {
				continue
			}
			rest := make(Mono, 0, len(t.m))
			for j, g := range t.m {
				if j == i {
					if g.E > 1 {
						rest = append(rest, Factor{g.A, g.E - 1})
					}
				} else {
					rest = append(rest, g)
				}
			}
			rp := Poly{}
			rp.addTerm(rest, new(big.Rat).Mul(t.c, big.NewRat(int64(f.E), 1)))
			res = Add(res, Mul(mk(rp, polyConst(big.NewRat(1, 1))), da))
		}
	}
	return res, nil
}

func diffAtom(a *Atom, x *Atom) (*Term, error) {
	if a.Kind == "sym" {
		if a == x {
			return One(), nil
		}
		return Zero(), nil
	}
	// chain rule pieces
	var du []*Term
	any := false
	for _, arg := range a.Args {
		d, err := Diff(arg, x)
		if err != nil {
			return nil, err
		}
		du = append(du, d)
		if !d.IsZero() {
			any = true
		}
	}
	if !any {
		return Zero(), nil
	}
	self := fromAtom(a)
	u := a.Args[0]
	switch a.Kind {
	case "exp":
		return Mul(self, du[0]), nil
	case "log":
		return Div(du[0], u), nil
	case "sin":
		return Mul(Fn("cos", u), du[0]), nil
	case "cos":
		return Neg(Mul(Fn("sin", u), du[0])), nil
	case "sinh":
		return Mul(Fn("cosh", u), du[0]), nil
	case "cosh":
		return Mul(Fn("sinh", u), du[0]), nil
	case "erf":
		return Mul(Div(Mul(Int(2), Fn("exp", Neg(Mul(u, u)))), Sym("sqrtpi")), du[0]), nil
	case "gamma":
		return Mul(Mul(self, Fn("digamma", u)), du[0]), nil
	case "lgamma":
		return Mul(Fn("digamma", u), du[0]), nil
	case "digamma":
		return Mul(Fn("trigamma", u), du[0]), nil
	case "trigamma":
		return Mul(Fn("polygamma2", u), du[0]), nil
	case "mlgamma":
		if !du[1].IsZero() {
			return nil, &DiffError{"mlgamma: derivative w.r.t. k"}
		}
		j := Sym("$j")
		body := Fn("digamma", Add(u, Div(Sub(One(), j), Int(2))))
		return Mul(Sum(One(), a.Args[1], body), du[0]), nil
	case "gammap", "gammapd1", "gammapd2":
		if !du[0].IsZero() {
			return nil, &DiffError{"gammaP: derivative w.r.t. the shape parameter"}
		}
		next := map[string]string{"gammap": "gammapd1", "gammapd1": "gammapd2", "gammapd2": "gammapd3"}[a.Kind]
		return Mul(Fn(next, a.Args[0], a.Args[1]), du[1]), nil
	case "besseli":
		if !du[0].IsZero() {
			return nil, &DiffError{"besselI: derivative w.r.t. the order"}
		}
		v, z := a.Args[0], a.Args[1]
		d := Mul(Rat(1, 2), Add(Fn("besseli", Sub(v, One()), z), Fn("besseli", Add(v, One()), z)))
		return Mul(d, du[1]), nil
	case "pow":
		b, e := a.Args[0], a.Args[1]
		// pow(b,e) * (e' log b + e b'/b)
		r := Zero()
		if !du[1].IsZero() {
			r = Add(r, Mul(du[1], Fn("log", b)))
		}
		if !du[0].IsZero() {
			r = Add(r, Div(Mul(e, du[0]), b))
		}
		return Mul(self, r), nil
	case "sum":
		if !du[0].IsZero() || !du[1].IsZero() {
			return nil, &DiffError{"sum: bounds depend on the variable"}
		}
		return SumVar(a.Name, a.Args[0], a.Args[1], du[2]), nil
	}
	return nil, &DiffError{"no differentiation rule for " + a.Kind}
}

// Subst replaces symbol atoms by terms (recursively inside function arguments).
func Subst(t *Term, m map[*Atom]*Term) *Term {
	sp := func(p Poly) *Term {
		res := Zero()
		for _, x := range p.sorted() {
			tm := Const(x.c)
			for _, f := range x.m {
				var at *Term
				if r, ok := m[f.A]; ok {
					at = r // whole atoms (symbols or applications such as elem(v, 0)) may be replaced
				} else if f.A.Kind == "sym" {
					at = fromAtom(f.A)
				} else {
					args := make([]*Term, len(f.A.Args))
					for i, a := range f.A.Args {
						args[i] = Subst(a, m)
					}
					if f.A.Kind == "sum" {
						at = SumVar(f.A.Name, args[0], args[1], args[2])
					} else {
						at = Fn(f.A.Kind, args...)
					}
				}
				tm = Mul(tm, PowInt(at, f.E))
			}
			res = Add(res, tm)
		}
		return res
	}
	return Div(sp(t.N), sp(t.D))
}

// ParseAtomString returns the term of an interned atom by its key (or a fresh symbol if unknown).
func ParseAtomString(key string) *Term {
	if a, ok := atoms[key]; ok {
		return fromAtom(a)
	}
	return Sym(key)
}

// LogExpand rewrites t into a normal form in which powers and logarithms of products are expanded:
//
//	pow(u, e)  ->  exp(e * log u),      log(c * prod a_i^k_i / (d * prod b_j^m_j))  ->  log(c/d) + sum k_i log a_i - sum m_j log b_j
//
// (for single-monomial numerator and denominator). The rewriting is valid where all factors are positive; it is used
// to compare two expressions of a density on its support, where the code and the reference may group factors differently.
func LogExpand(t *Term) *Term {
	var expandAtom func(a *Atom) *Term
	var expandTerm func(t *Term) *Term
	logMono := func(p Poly) (*Term, bool) {
		if len(p) != 1 {
			return nil, false
		}
		for _, x := range p {
			s := Zero()
			if x.c.Sign() <= 0 {
				return nil, false
			}
			if x.c.Cmp(big.NewRat(1, 1)) != 0 {
				// log(p/q) = log p - log q
				if x.c.Num().Cmp(big.NewInt(1)) != 0 {
					s = Add(s, fromAtom(intern("log", "", []*Term{Const(new(big.Rat).SetInt(x.c.Num()))})))
				}
				if x.c.Denom().Cmp(big.NewInt(1)) != 0 {
					s = Sub(s, fromAtom(intern("log", "", []*Term{Const(new(big.Rat).SetInt(x.c.Denom()))})))
				}
			}
			for _, f := range x.m {
				var la *Term
				if f.A.Kind == "exp" {
					la = expandTerm(f.A.Args[0])
				} else {
					la = fromAtom(intern("log", "", []*Term{expandAtom(f.A)}))
				}
				s = Add(s, Mul(Int(int64(f.E)), la))
			}
			return s, true
		}
		return nil, false
	}
	logExpanded := func(u *Term) *Term {
		u = expandTerm(u)
		if n, ok := logMono(u.N); ok {
			if d, ok := logMono(u.D); ok {
				return Sub(n, d)
			}
		}
		return Fn("log", u)
	}
	expandAtom = func(a *Atom) *Term {
		switch a.Kind {
		case "sym":
			return fromAtom(a)
		case "pow":
			return Fn("exp", Mul(expandTerm(a.Args[1]), logExpanded(a.Args[0])))
		case "log":
			return logExpanded(a.Args[0])
		case "sum":
			return fromAtom(a)
		}
		args := make([]*Term, len(a.Args))
		for i, x := range a.Args {
			args[i] = expandTerm(x)
		}
		return Fn(a.Kind, args...)
	}
	expandPoly := func(p Poly) *Term {
		res := Zero()
		for _, x := range p.sorted() {
			tm := Const(x.c)
			for _, f := range x.m {
				tm = Mul(tm, PowInt(expandAtom(f.A), f.E))
			}
			res = Add(res, tm)
		}
		return res
	}
	expandTerm = func(t *Term) *Term {
		return Div(expandPoly(t.N), expandPoly(t.D))
	}
	return expandTerm(t)
}
