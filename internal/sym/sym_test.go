package sym

import "testing"

func d(t *testing.T, f *Term, x string) *Term {
	r, err := Diff(f, SymAtom(x))
	if err != nil {
		t.Fatal(err)
	}
	return r
}

func TestBasics(t *testing.T) {
	x, y := Sym("x"), Sym("y")
	// tan' = 1 + tan^2
	tan := Fn("tan", x)
	if !Equal(d(t, tan, "x"), Add(One(), Mul(tan, tan))) {
		t.Error("tan")
	}
	// tanh' = 1 - tanh^2
	th := Fn("tanh", x)
	if !Equal(d(t, th, "x"), Sub(One(), Mul(th, th))) {
		t.Error("tanh", d(t, th, "x"))
	}
	// erf' = 2/(exp(x^2) sqrtpi)
	if !Equal(d(t, Fn("erf", x), "x"), Div(Int(2), Mul(Fn("exp", Mul(x, x)), Sym("sqrtpi")))) {
		t.Error("erf")
	}
	// logerfc''
	tt := Fn("erfc", x)
	f2 := Div(Mul(Int(4), Sub(Mul(Mul(Mul(Fn("exp", Mul(x, x)), Sym("sqrtpi")), tt), x), One())), Mul(Mul(Mul(Fn("exp", Mul(Int(2), Mul(x, x))), Sym("pi")), tt), tt))
	if !Equal(d(t, d(t, Fn("logerfc", x), "x"), "x"), f2) {
		t.Error("logerfc''", d(t, d(t, Fn("logerfc", x), "x"), "x"), "\n", f2)
	}
	// pow
	p := Fn("pow", x, y)
	if !Equal(d(t, p, "x"), Mul(Fn("pow", x, Sub(y, One())), y)) {
		t.Error("pow dx")
	}
	if !Equal(d(t, p, "y"), Mul(p, Fn("log", x))) {
		t.Error("pow dy")
	}
	if !Equal(d(t, d(t, p, "x"), "y"), Mul(Fn("pow", x, Sub(y, One())), Add(One(), Mul(y, Fn("log", x))))) {
		t.Error("pow dxdy")
	}
	// sqrt
	s := Fn("pow", x, Rat(1, 2))
	if !Equal(Mul(s, s), x) {
		t.Error("sqrt^2")
	}
	// bessel
	v := Sym("v")
	v0 := Fn("besseli", v, x)
	f1 := Sub(Fn("besseli", Sub(v, One()), x), Mul(Div(v, x), v0))
	if !Equal(d(t, v0, "x"), f1) {
		t.Error("besselI'", d(t, v0, "x"), f1)
	}
	f2b := Mul(Rat(1, 4), Add(Add(Fn("besseli", Sub(v, Int(2)), x), Mul(Int(2), v0)), Fn("besseli", Add(v, Int(2)), x)))
	if !Equal(d(t, d(t, v0, "x"), "x"), f2b) {
		t.Error("besselI''")
	}
	// log bessel
	l0 := Fn("logbesseli", v, x)
	l1 := Fn("logbesseli", Sub(v, One()), x)
	lf1 := Sub(Fn("exp", Sub(l1, l0)), Div(v, x))
	if !Equal(d(t, l0, "x"), lf1) {
		t.Error("logbesselI'", d(t, l0, "x"), lf1)
	}
	// exp/log
	if !Equal(Fn("exp", Add(Fn("log", x), y)), Mul(x, Fn("exp", y))) {
		t.Error("exp log")
	}
	if !Equal(Fn("log", Fn("exp", Sub(x, y))), Sub(x, y)) {
		t.Error("log exp")
	}
	// gamma''
	g := Fn("gamma", x)
	if !Equal(d(t, d(t, g, "x"), "x"), Mul(g, Add(Mul(Fn("digamma", x), Fn("digamma", x)), Fn("trigamma", x)))) {
		t.Error("gamma''")
	}
	// wrong things are unequal
	if Equal(d(t, Fn("sin", x), "x"), Fn("sin", x)) {
		t.Error("sin' == sin")
	}
	// erfc vs erf
	if Equal(Fn("erfc", x), Fn("erf", x)) {
		t.Error("erfc==erf")
	}
}
