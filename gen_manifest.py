#!/usr/bin/env python3
# Generates MANIFEST.json from manifest_src.json (per-property claims) -- keeps it schema-valid.
import json,sys
src=json.load(open('manifest_src.json'))
props=[json.loads(l) for l in open('properties.jsonl')]
ids=[p['id'] for p in props]
checks=[]
na=[]
for pid in ids:
    e=src['properties'].get(pid)
    if e is None or not e.get('claimed'):
        na.append({"property_id":pid,"reason":(e or {}).get('reason','not yet built')})
        continue
    checks.append({
        "property_id":pid,
        "quick_cmd":f"./check {pid} quick",
        "thorough_cmd":f"./check {pid} thorough",
        "evidence_file":f"/verif/evidence/{pid}.json",
        "replay_cmd_template":f"./check {pid} --replay {{path}}",
        "engine":"adcheck",
        "level_claimed":{"category":e.get('level','other'),"text":e['text'],"design_ref":e.get('design_ref','DESIGN.md §4 '+pid)},
        "level_note":e['note'],
        "technique":e['technique'],
    })
m={
 "version":1,
 "setup_cmd":"cd /verif && GOFLAGS=-mod=mod GOPROXY=off GOSUMDB=off GOTOOLCHAIN=local go build -o bin/adcheck ./cmd/adcheck",
 "hooks":{"guard":"verif","enable":"none needed: the checks read /repo's source, no instrumentation is compiled in","baseline_off_cmd":src['baseline_off_cmd'],"source_commits":src.get('source_commits',[]),"add_only":True},
 "engines":[{"name":"adcheck","path":"/verif/cmd/adcheck","serves_properties":[c['property_id'] for c in checks],"kind_free_text":"repository-specific static analyser (go/packages + go/types + go/cfg + go/ssa, x/tools v0.29.0): symbolic normal forms of scalar code, structural/dominance rules, who-may-access tables, twin comparison, SSA effect analysis"}],
 "checks":checks,
 "notes":src.get('notes',''),
 "not_applicable":na,
}
json.dump(m,open('MANIFEST.json','w'),indent=1)
print("claimed:",[c['property_id'] for c in checks]); print("n/a:",[x['property_id'] for x in na])
