#!/bin/bash
# usage: mut.sh <ID> <file> <python-regex-old> <new>   -- applies one edit in a scratch copy and runs the check against it
set -u
ID="$1"; F="$2"; OLD="$3"; NEW="$4"
D=$(mktemp -d /tmp/mut.XXXXXX)
rsync -a --exclude .git /repo/ "$D/"
python3 - "$D/$F" "$OLD" "$NEW" <<'PY'
import sys,re
p,old,new=sys.argv[1:4]
s=open(p).read()
s2,n=re.subn(old,new,s,count=1,flags=re.S)
if n!=1: print("MUT: pattern not found"); sys.exit(3)
open(p,'w').write(s2)
PY
[ $? -eq 0 ] || { rm -rf "$D"; exit 3; }
(cd "$D" && GOFLAGS=-mod=mod GOPROXY=off GOSUMDB=off GOTOOLCHAIN=local go build ./... ) || echo "MUT: does not compile"
V=$(mktemp -d /tmp/mutv.XXXXXX); cp /verif/known_findings.json "$V/"; mkdir -p "$V/evidence"
/verif/bin/adcheck -property "$ID" -tier quick -repo "$D" -verif "$V" 2>&1 | grep -v "^  C" | head -${MUT_LINES:-8}
rm -rf "$D" "$V"
